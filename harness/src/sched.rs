//! Controlled scheduler: implementation of remoc's `verif::Controller` hook.
//!
//! Every task spawned through `remoc::exec::spawn` (remoc-internal and harness tasks alike) asks
//! this controller before each poll. Exactly one *woken* task is selected per scheduling step; the
//! choice comes from a recorded list of deviations (default: the task woken longest ago = Tokio's
//! own FIFO order). A selected task may additionally be *preempted* by reducing its cooperative
//! budget so that it is cut at its (k+1)-th Tokio resource operation.

use remoc::exec::verif::{Controller, Decision, INITIAL_BUDGET};
use std::{
    cell::RefCell,
    panic::Location,
    sync::{Arc, Mutex},
};

/// One deviation from the default schedule.
#[derive(Debug, Clone, Copy, PartialEq, Eq, Hash, serde::Serialize, serde::Deserialize)]
pub struct Deviation {
    /// Scheduling step at which it applies.
    pub pos: u32,
    /// Index into the enabled set (0 = default).
    pub task: u16,
    /// Cooperative budget to leave to the poll (None = full budget).
    pub budget: Option<u8>,
    /// Size of the enabled set expected at that step (divergence check).
    pub expect_enabled: u16,
}

impl Deviation {
    pub fn cost(&self) -> u32 {
        (self.task > 0) as u32 + self.budget.is_some() as u32
    }
}

/// Record of one scheduling step.
#[derive(Debug, Clone, Copy)]
pub struct StepRec {
    pub n_enabled: u16,
    pub chosen: u16,
    pub task: u16,
    pub budget: Option<u8>,
    pub consumed: u8,
    pub explore: bool,
}

#[derive(Debug, Clone, Copy, PartialEq, Eq)]
enum TState {
    Idle,
    Woken(u64),
    Done,
}

#[derive(Debug)]
pub struct TaskInfo {
    pub name: String,
    pub tag: u8,
    state: TState,
    pub polls: u32,
    pub harness: bool,
}

impl TaskInfo {
    pub fn is_done(&self) -> bool {
        self.state == TState::Done
    }
}

struct Inner {
    tasks: Vec<TaskInfo>,
    wake_seq: u64,
    selected: Option<usize>,
    running: Option<usize>,
    allowed: u32,
    step: u32,
    trace: Vec<StepRec>,
    deviations: Vec<Deviation>,
    next_dev: usize,
    explore_on: bool,
    frozen: bool,
    horizon: u32,
    divergence: Option<String>,
    port_base: [u32; 8],
    port_allocs: u32,
    record_names: bool,
    step_names: Vec<u16>,
}

/// The controller of one execution.
pub struct Ctl {
    inner: Mutex<Inner>,
}

/// Wake tracing for debugging replays (env DBGWAKE).
fn debug_wakes() -> bool {
    static ON: std::sync::OnceLock<bool> = std::sync::OnceLock::new();
    *ON.get_or_init(|| std::env::var("DBGWAKE").is_ok())
}

thread_local! {
    static NEXT_NAME: RefCell<Option<(String, Option<u8>)>> = const { RefCell::new(None) };
}

impl Ctl {
    pub fn new(deviations: Vec<Deviation>, horizon: u32) -> Arc<Self> {
        Arc::new(Self {
            inner: Mutex::new(Inner {
                tasks: Vec::new(),
                wake_seq: 0,
                selected: None,
                running: None,
                allowed: INITIAL_BUDGET,
                step: 0,
                trace: Vec::new(),
                deviations,
                next_dev: 0,
                explore_on: false,
                frozen: false,
                horizon,
                divergence: None,
                port_base: [0; 8],
                port_allocs: 0,
                record_names: true,
                step_names: Vec::new(),
            }),
        })
    }

    /// Sets name (and tag) for the next task spawned from this thread.
    pub fn name_next(name: &str, tag: Option<u8>) {
        NEXT_NAME.with(|n| *n.borrow_mut() = Some((name.to_string(), tag)));
    }

    pub fn set_explore(&self, on: bool) {
        self.inner.lock().unwrap().explore_on = on;
    }

    pub fn set_port_base(&self, tag: u8, base: u32) {
        self.inner.lock().unwrap().port_base[tag as usize & 7] = base;
    }

    pub fn step(&self) -> u32 {
        self.inner.lock().unwrap().step
    }

    pub fn frozen(&self) -> bool {
        self.inner.lock().unwrap().frozen
    }

    pub fn freeze(&self) {
        self.inner.lock().unwrap().frozen = true;
    }

    pub fn divergence(&self) -> Option<String> {
        self.inner.lock().unwrap().divergence.clone()
    }

    pub fn take_trace(&self) -> Vec<StepRec> {
        std::mem::take(&mut self.inner.lock().unwrap().trace)
    }

    pub fn port_allocs(&self) -> u32 {
        self.inner.lock().unwrap().port_allocs
    }

    /// Tag of the running task (0 if none).
    pub fn current_tag(&self) -> u8 {
        let inner = self.inner.lock().unwrap();
        inner.running.map(|r| inner.tasks[r].tag).unwrap_or(0)
    }

    /// Names of tasks that have not finished: (name, tag, harness).
    pub fn live_tasks(&self) -> Vec<(String, u8, bool)> {
        let inner = self.inner.lock().unwrap();
        inner.tasks.iter().filter(|t| !t.is_done()).map(|t| (t.name.clone(), t.tag, t.harness)).collect()
    }

    /// Names of tasks that are currently woken (enabled).
    pub fn woken_tasks(&self) -> Vec<String> {
        let inner = self.inner.lock().unwrap();
        inner.tasks.iter().filter(|t| matches!(t.state, TState::Woken(_))).map(|t| t.name.clone()).collect()
    }

    pub fn task_count(&self) -> usize {
        self.inner.lock().unwrap().tasks.len()
    }

    /// Human-readable schedule: task name per step.
    pub fn schedule_names(&self) -> Vec<String> {
        let inner = self.inner.lock().unwrap();
        inner
            .step_names
            .iter()
            .zip(inner.trace.iter())
            .map(|(t, r)| {
                let name = &inner.tasks[*t as usize].name;
                match r.budget {
                    Some(b) => format!("{name}[{}/{}]!{b}", r.chosen, r.n_enabled),
                    None => format!("{name}[{}/{}]", r.chosen, r.n_enabled),
                }
            })
            .collect()
    }
}

impl Controller for Ctl {
    fn register(&self, at: &'static Location<'static>) -> usize {
        let mut inner = self.inner.lock().unwrap();
        let parent_tag = inner.running.map(|r| inner.tasks[r].tag).unwrap_or(0);
        let (name, tag, harness) = match NEXT_NAME.with(|n| n.borrow_mut().take()) {
            Some((name, tag)) => (name, tag.unwrap_or(parent_tag), true),
            None => {
                let file = at.file().rsplit("/src/").next().unwrap_or(at.file());
                (format!("{}:{}", file, at.line()), parent_tag, false)
            }
        };
        let id = inner.tasks.len();
        // Wake order key: (step, task id). Tasks woken during the same scheduling step are ordered
        // by task id, so the order in which a poll wakes others (e.g. HashMap drop order) is irrelevant.
        let seq = ((inner.step as u64) << 24) | id as u64;
        inner.tasks.push(TaskInfo { name, tag, state: TState::Woken(seq), polls: 0, harness });
        id
    }

    fn before_poll(&self, id: usize) -> Decision {
        let mut inner = self.inner.lock().unwrap();
        if inner.frozen {
            return Decision::Park;
        }
        if inner.tasks[id].state == TState::Idle {
            // Polled without a wake through our waker: treat as woken now.
            let seq = ((inner.step as u64) << 24) | id as u64;
            inner.tasks[id].state = TState::Woken(seq);
        }
        if inner.selected.is_none() {
            let mut enabled: Vec<(u64, usize)> = inner
                .tasks
                .iter()
                .enumerate()
                .filter_map(|(i, t)| if let TState::Woken(s) = t.state { Some((s, i)) } else { None })
                .collect();
            enabled.sort_unstable();
            let step = inner.step;
            if debug_wakes() {
                let names: Vec<String> = enabled.iter().map(|(_, i)| format!("{}#{}", inner.tasks[*i].name, i)).collect();
                eprintln!("S step {step} first-polled {}#{id} enabled {:?}", inner.tasks[id].name, names);
            }
            let (idx, budget) = match inner.deviations.get(inner.next_dev) {
                Some(d) if d.pos == step => {
                    let d = *d;
                    inner.next_dev += 1;
                    if d.expect_enabled as usize != enabled.len() || d.task as usize >= enabled.len() {
                        let names: Vec<String> = enabled.iter().map(|(_, i)| format!("{}#{}", inner.tasks[*i].name, i)).collect();
                        inner.divergence = Some(format!(
                            "step {step}: deviation expects {} enabled tasks, found {}: {:?}",
                            d.expect_enabled,
                            enabled.len(),
                            names
                        ));
                        inner.frozen = true;
                        return Decision::Park;
                    }
                    (d.task as usize, d.budget)
                }
                _ => (0, None),
            };
            let sel = enabled[idx].1;
            inner.selected = Some(sel);
            let explore = inner.explore_on;
            inner.trace.push(StepRec {
                n_enabled: enabled.len().min(u16::MAX as usize) as u16,
                chosen: idx as u16,
                task: sel as u16,
                budget,
                consumed: 0,
                explore,
            });
            if inner.record_names {
                inner.step_names.push(sel as u16);
            }
        }
        if inner.selected == Some(id) {
            inner.tasks[id].state = TState::Idle;
            inner.tasks[id].polls += 1;
            inner.running = Some(id);
            let budget = inner.trace.last().unwrap().budget;
            inner.allowed = budget.map(|b| b as u32).unwrap_or(INITIAL_BUDGET);
            Decision::Run(budget.map(|b| b as u32))
        } else {
            Decision::Defer
        }
    }

    fn after_poll(&self, id: usize, done: bool, budget_left: u32) {
        let mut inner = self.inner.lock().unwrap();
        let consumed = inner.allowed.saturating_sub(budget_left).min(255) as u8;
        if let Some(last) = inner.trace.last_mut() {
            last.consumed = consumed;
        }
        if done {
            inner.tasks[id].state = TState::Done;
        }
        inner.selected = None;
        inner.running = None;
        inner.step += 1;
        if inner.step >= inner.horizon {
            inner.frozen = true;
        }
    }

    fn woken(&self, id: usize) {
        let mut inner = self.inner.lock().unwrap();
        if inner.tasks[id].state == TState::Idle {
            let seq = ((inner.step as u64) << 24) | id as u64;
            inner.tasks[id].state = TState::Woken(seq);
            if debug_wakes() {
                eprintln!("W step {} running {:?} wakes {}#{}", inner.step, inner.running.map(|r| inner.tasks[r].name.clone()), inner.tasks[id].name, id);
            }
        }
    }

    fn dropped(&self, id: usize) {
        let mut inner = self.inner.lock().unwrap();
        if debug_wakes() {
            eprintln!("D step {} dropped {}#{id} state {:?}", inner.step, inner.tasks[id].name, inner.tasks[id].state);
        }
        inner.tasks[id].state = TState::Done;
        if inner.running == Some(id) {
            // The task panicked during its poll (after_poll was never called): the step is over.
            inner.selected = None;
            inner.running = None;
            inner.step += 1;
            if inner.step >= inner.horizon {
                inner.frozen = true;
            }
        } else if inner.selected == Some(id) {
            // Selected but dropped before it was polled (it had been aborted): the step is recorded as an
            // empty step, so that a replay, which meets the same not-yet-dropped task in its enabled set,
            // numbers its steps in the same way.
            inner.selected = None;
            inner.step += 1;
            if inner.step >= inner.horizon {
                inner.frozen = true;
            }
        }
    }

    fn port_candidate(&self, is_used: &dyn Fn(u32) -> bool) -> Option<u32> {
        let mut inner = self.inner.lock().unwrap();
        inner.port_allocs += 1;
        let tag = inner.running.map(|r| inner.tasks[r].tag).unwrap_or(0) as u32 & 7;
        let base = inner.port_base[tag as usize];
        let mut k = 0u32;
        loop {
            let n = base.wrapping_add(tag).wrapping_add(k.wrapping_mul(8));
            if !is_used(n) {
                return Some(n);
            }
            k += 1;
        }
    }
}
