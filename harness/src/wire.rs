//! Reference codec for chmux protocol version 3, written from /verif/spec/chmux_v3.md.
//! Shares no code with remoc's `chmux/msg.rs`.

#[derive(Debug, Clone, PartialEq, Eq, Hash)]
pub struct HelloCfg {
    pub timeout_ms: u64,
    pub chunk_size: u32,
    pub receive_buffer: u32,
    pub connect_queue: u16,
}

#[derive(Debug, Clone, PartialEq, Eq, Hash)]
pub enum Msg {
    Reset,
    Hello { version: u8, cfg: HelloCfg },
    Ping,
    OpenPort { client_port: u32, wait: bool, id: Option<u32> },
    PortOpened { client_port: u32, server_port: u32 },
    Rejected { client_port: u32, no_ports: bool },
    Data { port: u32, first: bool, last: bool },
    PortData { port: u32, first: bool, last: bool, wait: bool, ports: Vec<u32>, ids: Option<Vec<u32>> },
    PortCredits { port: u32, credits: u32 },
    SendFinish { port: u32 },
    ReceiveClose { port: u32 },
    ReceiveFinish { port: u32 },
    ClientFinish,
    ListenerFinish,
    Goodbye,
}

pub const MAGIC: [u8; 6] = [0x43, 0x48, 0x4D, 0x55, 0x58, 0x00];

fn u32le(v: u32, out: &mut Vec<u8>) {
    out.push((v & 0xff) as u8);
    out.push(((v >> 8) & 0xff) as u8);
    out.push(((v >> 16) & 0xff) as u8);
    out.push(((v >> 24) & 0xff) as u8);
}

impl Msg {
    pub fn code(&self) -> u8 {
        match self {
            Msg::Reset => 1,
            Msg::Hello { .. } => 2,
            Msg::Ping => 3,
            Msg::OpenPort { .. } => 4,
            Msg::PortOpened { .. } => 5,
            Msg::Rejected { .. } => 6,
            Msg::Data { .. } => 7,
            Msg::PortData { .. } => 8,
            Msg::PortCredits { .. } => 9,
            Msg::SendFinish { .. } => 10,
            Msg::ReceiveClose { .. } => 11,
            Msg::ReceiveFinish { .. } => 12,
            Msg::ClientFinish => 13,
            Msg::ListenerFinish => 14,
            Msg::Goodbye => 15,
        }
    }

    pub fn name(&self) -> &'static str {
        match self {
            Msg::Reset => "Reset",
            Msg::Hello { .. } => "Hello",
            Msg::Ping => "Ping",
            Msg::OpenPort { .. } => "OpenPort",
            Msg::PortOpened { .. } => "PortOpened",
            Msg::Rejected { .. } => "Rejected",
            Msg::Data { .. } => "Data",
            Msg::PortData { .. } => "PortData",
            Msg::PortCredits { .. } => "PortCredits",
            Msg::SendFinish { .. } => "SendFinish",
            Msg::ReceiveClose { .. } => "ReceiveClose",
            Msg::ReceiveFinish { .. } => "ReceiveFinish",
            Msg::ClientFinish => "ClientFinish",
            Msg::ListenerFinish => "ListenerFinish",
            Msg::Goodbye => "Goodbye",
        }
    }

    /// Encodes per the spec.
    pub fn encode(&self) -> Vec<u8> {
        let mut o = vec![self.code()];
        match self {
            Msg::Reset | Msg::Ping | Msg::ClientFinish | Msg::ListenerFinish | Msg::Goodbye => {}
            Msg::Hello { version, cfg } => {
                o.extend_from_slice(&MAGIC);
                o.push(*version);
                for i in 0..8 {
                    o.push(((cfg.timeout_ms >> (8 * i)) & 0xff) as u8);
                }
                u32le(cfg.chunk_size, &mut o);
                u32le(cfg.receive_buffer, &mut o);
                o.push((cfg.connect_queue & 0xff) as u8);
                o.push((cfg.connect_queue >> 8) as u8);
            }
            Msg::OpenPort { client_port, wait, id } => {
                u32le(*client_port, &mut o);
                o.push((*wait as u8) | ((id.is_some() as u8) << 1));
                if let Some(id) = id {
                    u32le(*id, &mut o);
                }
            }
            Msg::PortOpened { client_port, server_port } => {
                u32le(*client_port, &mut o);
                u32le(*server_port, &mut o);
            }
            Msg::Rejected { client_port, no_ports } => {
                u32le(*client_port, &mut o);
                o.push(*no_ports as u8);
            }
            Msg::Data { port, first, last } => {
                u32le(*port, &mut o);
                o.push((*first as u8) | ((*last as u8) << 1));
            }
            Msg::PortData { port, first, last, wait, ports, ids } => {
                u32le(*port, &mut o);
                o.push(
                    (*first as u8) | ((*last as u8) << 1) | ((*wait as u8) << 2) | ((ids.is_some() as u8) << 3),
                );
                for (i, p) in ports.iter().enumerate() {
                    u32le(*p, &mut o);
                    if let Some(ids) = ids {
                        u32le(ids[i], &mut o);
                    }
                }
            }
            Msg::PortCredits { port, credits } => {
                u32le(*port, &mut o);
                u32le(*credits, &mut o);
            }
            Msg::SendFinish { port } | Msg::ReceiveClose { port } | Msg::ReceiveFinish { port } => {
                u32le(*port, &mut o);
            }
        }
        o
    }

    /// Decodes a frame per the spec. `Err` = malformed.
    pub fn decode(f: &[u8]) -> Result<Msg, String> {
        struct R<'a>(&'a [u8]);
        impl<'a> R<'a> {
            fn u8(&mut self) -> Result<u8, String> {
                let (a, b) = self.0.split_first().ok_or("truncated")?;
                self.0 = b;
                Ok(*a)
            }
            fn u16(&mut self) -> Result<u16, String> {
                Ok(self.u8()? as u16 | (self.u8()? as u16) << 8)
            }
            fn u32(&mut self) -> Result<u32, String> {
                Ok(self.u16()? as u32 | (self.u16()? as u32) << 16)
            }
            fn u64(&mut self) -> Result<u64, String> {
                Ok(self.u32()? as u64 | (self.u32()? as u64) << 32)
            }
        }
        let mut r = R(f);
        let code = r.u8()?;
        let m = match code {
            1 => Msg::Reset,
            2 => {
                for b in MAGIC {
                    if r.u8()? != b {
                        return Err("bad magic".into());
                    }
                }
                let version = r.u8()?;
                let cfg = HelloCfg {
                    timeout_ms: r.u64()?,
                    chunk_size: r.u32()?,
                    receive_buffer: r.u32()?,
                    connect_queue: r.u16()?,
                };
                if cfg.chunk_size < 4 || cfg.receive_buffer < 4 || cfg.connect_queue < 1 {
                    return Err("invalid cfg".into());
                }
                Msg::Hello { version, cfg }
            }
            3 => Msg::Ping,
            4 => {
                let client_port = r.u32()?;
                let flags = r.u8()?;
                let id = if flags & 2 != 0 { Some(r.u32()?) } else { None };
                Msg::OpenPort { client_port, wait: flags & 1 != 0, id }
            }
            5 => Msg::PortOpened { client_port: r.u32()?, server_port: r.u32()? },
            6 => Msg::Rejected { client_port: r.u32()?, no_ports: r.u8()? & 1 != 0 },
            7 => {
                let port = r.u32()?;
                let flags = r.u8()?;
                Msg::Data { port, first: flags & 1 != 0, last: flags & 2 != 0 }
            }
            8 => {
                let port = r.u32()?;
                let flags = r.u8()?;
                let with_ids = flags & 8 != 0;
                let mut ports = Vec::new();
                let mut ids = Vec::new();
                while r.0.len() >= 4 {
                    ports.push(r.u32()?);
                    if with_ids {
                        ids.push(r.u32().map_err(|_| "port without id")?);
                    }
                }
                Msg::PortData {
                    port,
                    first: flags & 1 != 0,
                    last: flags & 2 != 0,
                    wait: flags & 4 != 0,
                    ports,
                    ids: with_ids.then_some(ids),
                }
            }
            9 => Msg::PortCredits { port: r.u32()?, credits: r.u32()? },
            10 => Msg::SendFinish { port: r.u32()? },
            11 => Msg::ReceiveClose { port: r.u32()? },
            12 => Msg::ReceiveFinish { port: r.u32()? },
            13 => Msg::ClientFinish,
            14 => Msg::ListenerFinish,
            15 => Msg::Goodbye,
            c => return Err(format!("unknown code {c}")),
        };
        Ok(m)
    }
}

/// A decoded element of one direction's frame stream.
#[derive(Debug, Clone, PartialEq, Eq)]
pub enum Item {
    Msg(Msg),
    /// Payload frame following a Data message.
    Payload(usize),
    Malformed(String),
}

/// Stateful decoder for one direction (a Data message is followed by its payload frame).
#[derive(Default, Clone)]
pub struct DirDecoder {
    expect_payload: bool,
}

impl DirDecoder {
    pub fn feed(&mut self, frame: &[u8]) -> Item {
        if self.expect_payload {
            self.expect_payload = false;
            return Item::Payload(frame.len());
        }
        match Msg::decode(frame) {
            Ok(m) => {
                if matches!(m, Msg::Data { .. }) {
                    self.expect_payload = true;
                }
                Item::Msg(m)
            }
            Err(e) => Item::Malformed(e),
        }
    }
}
