mod explore;
mod monitor;
mod net;
mod props;
mod report;
mod sched;
mod util;
mod wire;
mod world;

use report::Tier;

fn usage() -> ! {
    eprintln!("usage: rverif check <ID> [--tier quick|thorough] [--seed N] | rverif replay <file>");
    std::process::exit(2)
}

fn main() {
    // Initialise remoc's process-wide thread-availability probe outside any paused-clock runtime.
    {
        let rt = tokio::runtime::Builder::new_current_thread().build().unwrap();
        rt.block_on(remoc::exec::are_threads_available());
    }
    let args: Vec<String> = std::env::args().collect();
    if args.len() < 3 {
        usage();
    }
    let mut tier = match std::env::var("VERIF_TIER").ok().as_deref() {
        Some("thorough") => Tier::Thorough,
        _ => Tier::Quick,
    };
    let mut seed: u64 = std::env::var("VERIF_SEED").ok().and_then(|s| s.parse().ok()).unwrap_or(1);
    let mut i = 3;
    while i < args.len() {
        match args[i].as_str() {
            "--tier" => {
                tier = match args.get(i + 1).map(|s| s.as_str()) {
                    Some("quick") => Tier::Quick,
                    Some("thorough") => Tier::Thorough,
                    _ => usage(),
                };
                i += 2;
            }
            "--seed" => {
                seed = args.get(i + 1).and_then(|s| s.parse().ok()).unwrap_or_else(|| usage());
                i += 2;
            }
            _ => usage(),
        }
    }
    match args[1].as_str() {
        "check" => {
            let code = match args[2].as_str() {
                "C01" => props::c01::run(tier, seed),
                "C02" => props::c02::run(tier, seed),
                "C03" => props::c03::run(tier, seed),
                "C04" => props::c04::run(tier, seed),
                "C05" => props::c05::run(tier, seed),
                "C06" => props::c06::run(tier, seed),
                "C07" => props::c07::run(tier, seed),
                "C08" => props::c08::run(tier, seed),
                "C09" => props::c09::run(tier, seed),
                "C10" => props::c10::run(tier, seed),
                "C12" => props::c12::run(tier, seed),
                "C15" => props::c15::run(tier, seed),
                "C19" => props::c19::run(tier, seed),
                "C20" => props::c20::run(tier, seed),
                "C13" => props::c13::run(tier, seed),
                "C14" => props::c14::run(tier, seed),
                "C16" => props::c16::run(tier, seed),
                "C17" => props::c17::run(tier, seed),
                "C18" => props::c18::run(tier, seed),
                "C11" => props::c11::run(tier, seed),
                other => {
                    eprintln!("unknown property {other}");
                    2
                }
            };
            std::process::exit(code);
        }
        "debugdet" => { debug_det(&args[2], std::env::var("VERIF_THREADS").ok().and_then(|s| s.parse().ok()).unwrap_or(1)); }
        "replay" => {
            std::process::exit(replay(&args[2]));
        }
        _ => usage(),
    }
}

fn replay(path: &str) -> i32 {
    let body: serde_json::Value = match std::fs::read_to_string(path).ok().and_then(|s| serde_json::from_str(&s).ok()) {
        Some(v) => v,
        None => {
            eprintln!("cannot read replay file {path}");
            return 2;
        }
    };
    let prop = body["checked_by"].as_str().unwrap_or("");
    let scn_id = body["scenario"].as_str().unwrap_or("");
    let seed = body["seed"].as_u64().unwrap_or(1);
    let devs: Vec<sched::Deviation> = serde_json::from_value(body["deviations"].clone()).unwrap_or_default();
    let mut all: Vec<std::sync::Arc<dyn world::Scenario>> = Vec::new();
    for tier in [Tier::Quick, Tier::Thorough] {
        match prop {
            "C01" => {
                all.extend(props::c01::grid(tier));
                all.extend(props::c01::core(tier));
            }
            "C02" => all.extend(props::c02::all_scenarios(tier)),
            "C03" => all.extend(props::c03::all_scenarios(tier)),
            "C04" => all.extend(props::c04::all_scenarios(tier)),
            "C05" => all.extend(props::c05::all_scenarios(tier)),
            "C06" => all.extend(props::c06::all_scenarios(tier)),
            "C07" => all.extend(props::c07::all_scenarios(tier)),
            "C08" => all.extend(props::c08::all_scenarios(tier)),
            "C09" => all.extend(props::c09::all_scenarios(tier)),
            "C10" => all.extend(props::c10::all_scenarios(tier)),
            "C12" => all.extend(props::c12::all_scenarios(tier)),
            "C15" => all.extend(props::c15::all_scenarios(tier)),
            "C19" => all.extend(props::c19::all_scenarios(tier)),
            "C20" => all.extend(props::c20::all_scenarios(tier)),
            "C13" => all.extend(props::c13::all_scenarios(tier)),
            "C14" => all.extend(props::c14::all_scenarios(tier)),
            "C16" => all.extend(props::c16::all_scenarios(tier)),
            "C17" => all.extend(props::c17::all_scenarios(tier)),
            "C18" => all.extend(props::c18::all_scenarios(tier)),
            "C11" => all.extend(props::c11::all_scenarios(tier)),
            _ => {}
        }
    }
    let Some(scn) = all.into_iter().find(|s| s.id() == scn_id) else {
        eprintln!("scenario {scn_id} not found for property {prop}");
        return 2;
    };
    let (out, verdict) = world::execute(&*scn, &devs, seed);
    println!("scenario: {scn_id}\nseed: {seed}\nending: {:?}\nsteps: {}", out.ending, out.steps);
    println!("schedule:");
    for (i, s) in out.schedule.iter().enumerate() {
        println!("  {i:4} {s}");
    }
    println!("wire:");
    let mut dec = [[wire::DirDecoder::default(), wire::DirDecoder::default()], [wire::DirDecoder::default(), wire::DirDecoder::default()]];
    for ev in &out.wire {
        let k = match ev.kind {
            net::WireKind::Sent => 0,
            net::WireKind::Delivered => 1,
            net::WireKind::Fault => {
                println!("  step {:4} link {} dir {} FAULT", ev.step, ev.link, ev.dir);
                continue;
            }
        };
        let item = dec[k][ev.dir as usize & 1].feed(&ev.frame);
        println!("  step {:4} link {} {} {} {:?}", ev.step, ev.link, if ev.dir == 0 { "a>b" } else { "b>a" }, if k == 0 { "sent     " } else { "delivered" }, item);
    }
    println!("divergence: {:?}", out.divergence);
    println!("live tasks at end: {:?}", out.live);
    println!("mux: {:?}", out.mux);
    println!("outcome: {}", verdict.outcome);
    println!("panics: {:?}", out.panics);
    let mut code = 0;
    for f in &verdict.findings {
        println!("FINDING property={} signature={} detail={}", f.prop, f.sig, f.detail);
        if f.prop == prop {
            code = 1;
        }
    }
    code
}


#[allow(dead_code)]
pub fn debug_det(id: &str, threads: usize) {
    let all = props::c04::all_scenarios(Tier::Quick);
    let scn = all.into_iter().find(|s| s.id() == id).expect("scenario");
    let hs: Vec<_> = (0..threads)
        .map(|t| {
            let scn = scn.clone();
            std::thread::spawn(move || {
                let mut counts = std::collections::BTreeMap::new();
                let mut base: Option<Vec<String>> = None;
                let mut shown = 0;
                for _i in 0..300 {
                    let (out, _) = world::execute(&*scn, &[], 1);
                    *counts.entry(out.trace.len()).or_insert(0usize) += 1;
                    match &base {
                        None => base = Some(out.schedule.clone()),
                        Some(b) => {
                            if let Some(k) = (0..b.len().min(out.schedule.len())).find(|k| b[*k] != out.schedule[*k]) {
                                if shown < 3 && t == 0 {
                                    shown += 1;
                                    eprintln!("first diff at step {k}: base {:?} vs {:?}", &b[k.saturating_sub(3)..(k + 3).min(b.len())], &out.schedule[k.saturating_sub(3)..(k + 3).min(out.schedule.len())]);
                                }
                            }
                        }
                    }
                }
                counts
            })
        })
        .collect();
    for h in hs {
        eprintln!("{:?}", h.join().unwrap());
    }
}
