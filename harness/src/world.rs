//! Execution environment: one real execution of a scenario under the controlled scheduler.

use futures::future::BoxFuture;
use remoc::chmux::{self, ChMux, Cfg};
use std::{
    cell::RefCell,
    collections::BTreeMap,
    future::Future,
    sync::{Arc, Mutex, Once},
    time::Duration,
};
use tokio::task::JoinHandle;

use crate::{
    net::{self, Dir, Fault, LinkEnd, LinkOpts, WireEvt, WireLog},
    sched::{Ctl, Deviation, StepRec},
};

/// A violation (or other finding) reported by an oracle.
#[derive(Debug, Clone)]
pub struct Finding {
    pub prop: String,
    /// Stable signature identifying what fails (used to match known findings).
    pub sig: String,
    pub detail: String,
}

#[derive(Debug, Clone, Default)]
pub struct Verdict {
    pub findings: Vec<Finding>,
    /// Canonical observation log (for counting distinct outcomes).
    pub outcome: String,
    /// The interesting event of the scenario really happened.
    pub nontrivial: bool,
}

impl Verdict {
    pub fn fail(&mut self, prop: &str, sig: impl Into<String>, detail: impl Into<String>) {
        self.findings.push(Finding { prop: prop.to_string(), sig: sig.into(), detail: detail.into() });
    }
}

#[derive(Debug, Clone, Copy, PartialEq, Eq)]
pub enum Ending {
    /// Root future returned.
    Completed,
    /// Watchdog fired with nothing runnable: something is waiting forever.
    Stuck,
    /// Step horizon reached (possible livelock).
    Horizon,
    /// Replay diverged (machinery error).
    Diverged,
}

pub struct Outcome {
    pub ending: Ending,
    pub steps: u32,
    pub trace: Vec<StepRec>,
    pub wire: Vec<WireEvt>,
    pub panics: Vec<String>,
    /// Unfinished tasks when the root ended: (name, tag, harness task).
    pub live: Vec<(String, u8, bool)>,
    pub divergence: Option<String>,
    pub schedule: Vec<String>,
    pub mux: BTreeMap<String, (u64, Result<(), String>)>,
    pub task_count: usize,
    pub port_allocs: u32,
}

pub type Judge = Box<dyn FnOnce(&Outcome) -> Verdict + Send>;

pub trait Scenario: Send + Sync {
    /// Unique id within the property (used by replay).
    fn id(&self) -> String;
    fn start(&self, env: Env) -> (BoxFuture<'static, ()>, Judge);
    /// Virtual seconds after which the execution is declared stuck.
    fn watchdog_secs(&self) -> u64 {
        3600
    }
    fn horizon(&self) -> u32 {
        20_000
    }
    /// False if the scenario involves threads the scheduler cannot control (replays may differ).
    fn deterministic(&self) -> bool {
        true
    }
}

#[derive(Clone)]
pub struct Env {
    pub ctl: Arc<Ctl>,
    pub wire: Arc<WireLog>,
    pub seed: u64,
    t0: tokio::time::Instant,
    links: Arc<Mutex<Vec<[Arc<Dir>; 2]>>>,
    mux: Arc<Mutex<BTreeMap<String, (u64, Result<(), String>)>>>,
}

impl Env {
    /// Spawns a harness task under the controlled scheduler.
    pub fn spawn<F>(&self, name: &str, tag: u8, f: F) -> JoinHandle<F::Output>
    where
        F: Future + Send + 'static,
        F::Output: Send + 'static,
    {
        Ctl::name_next(name, Some(tag));
        remoc::exec::verif::spawn(f)
    }

    /// Switch schedule branching on or off.
    pub fn explore(&self, on: bool) {
        self.ctl.set_explore(on);
    }

    /// Returns once nothing is runnable (virtual time advances only at quiescence).
    pub async fn quiesce(&self) {
        tokio::time::sleep(Duration::from_millis(1000)).await;
    }

    pub fn step(&self) -> u32 {
        self.ctl.step()
    }

    pub fn now_ms(&self) -> u64 {
        self.t0.elapsed().as_millis() as u64
    }

    /// Creates a link and spawns its two pumps.
    pub fn link(&self, opts: LinkOpts, faults: &[Fault]) -> (LinkEnd, LinkEnd) {
        let mut links = self.links.lock().unwrap();
        let id = links.len() as u8;
        let (a, b, p0, p1, dirs) = net::link(id, opts, self.wire.clone(), faults);
        links.push(dirs);
        self.spawn(&format!("pump{id}>"), 0, p0);
        self.spawn(&format!("pump{id}<"), 0, p1);
        (a, b)
    }

    pub fn dir(&self, link: usize, dir: usize) -> Arc<Dir> {
        self.links.lock().unwrap()[link][dir].clone()
    }

    /// Spawns an endpoint: handshake, then dispatcher. The result of `run()` is recorded under `name`.
    pub fn endpoint(
        &self, name: &str, tag: u8, cfg: Cfg, end: LinkEnd,
    ) -> tokio::sync::oneshot::Receiver<Result<(chmux::Client, chmux::Listener), String>> {
        let (tx, rx) = tokio::sync::oneshot::channel();
        let this = self.clone();
        let name_s = name.to_string();
        self.spawn(&format!("{name}.mux"), tag, async move {
            match ChMux::new(cfg, end.sink, end.stream).await {
                Ok((mux, client, listener)) => {
                    let _ = tx.send(Ok((client, listener)));
                    let res = mux.run().await;
                    let t = this.now_ms();
                    this.mux.lock().unwrap().insert(name_s, (t, res.map_err(|e| format!("{e:?}"))));
                }
                Err(err) => {
                    let t = this.now_ms();
                    this.mux.lock().unwrap().insert(name_s, (t, Err(format!("new: {err:?}"))));
                    let _ = tx.send(Err(format!("{err:?}")));
                }
            }
        });
        rx
    }

    /// Two connected endpoints "A" (tag 1) and "B" (tag 2) over a fresh link.
    pub async fn pair(
        &self, cfg_a: Cfg, cfg_b: Cfg, opts: LinkOpts, faults: &[Fault],
    ) -> Result<((chmux::Client, chmux::Listener), (chmux::Client, chmux::Listener)), String> {
        self.pair_named("A", 1, cfg_a, "B", 2, cfg_b, opts, faults).await
    }

    #[allow(clippy::too_many_arguments)]
    pub async fn pair_named(
        &self, na: &str, ta: u8, cfg_a: Cfg, nb: &str, tb: u8, cfg_b: Cfg, opts: LinkOpts, faults: &[Fault],
    ) -> Result<((chmux::Client, chmux::Listener), (chmux::Client, chmux::Listener)), String> {
        let (ea, eb) = self.link(opts, faults);
        let ra = self.endpoint(na, ta, cfg_a, ea);
        let rb = self.endpoint(nb, tb, cfg_b, eb);
        let a = ra.await.map_err(|_| "endpoint task died".to_string())??;
        let b = rb.await.map_err(|_| "endpoint task died".to_string())??;
        Ok((a, b))
    }

    pub fn mux_result(&self, name: &str) -> Option<(u64, Result<(), String>)> {
        self.mux.lock().unwrap().get(name).cloned()
    }
}

thread_local! {
    static PANICS: RefCell<Option<Vec<String>>> = const { RefCell::new(None) };
}

static HOOK: Once = Once::new();

fn install_panic_hook() {
    HOOK.call_once(|| {
        let default = std::panic::take_hook();
        std::panic::set_hook(Box::new(move |info| {
            let captured = PANICS.with(|p| {
                if let Some(v) = p.borrow_mut().as_mut() {
                    v.push(format!("{info}"));
                    true
                } else {
                    false
                }
            });
            if !captured {
                default(info);
            }
        }));
    });
}

/// Small tiny-cfg helper.
pub fn cfg(chunk: u32, rb: u32, mds: usize, ssq: usize, tq: usize) -> Cfg {
    Cfg {
        connection_timeout: None,
        chunk_size: chunk,
        receive_buffer: rb,
        max_data_size: mds,
        shared_send_queue: ssq,
        transport_send_queue: tq,
        transport_receive_queue: tq,
        max_ports: 64,
        connect_queue: 8,
        max_received_ports: 16,
        ..Default::default()
    }
}

/// Runs one execution of the scenario with the given deviations.
pub fn execute(scn: &dyn Scenario, devs: &[Deviation], seed: u64) -> (Outcome, Verdict) {
    if std::env::var("VERIF_TRACE").is_ok() {
        eprintln!("exec {} {:?}", scn.id(), devs);
    }
    install_panic_hook();
    PANICS.with(|p| *p.borrow_mut() = Some(Vec::new()));

    let ctl = Ctl::new(devs.to_vec(), scn.horizon());
    remoc::exec::verif::install(Some(ctl.clone()));

    let rt = tokio::runtime::Builder::new_current_thread()
        .enable_time()
        .start_paused(true)
        // wakes deferred by an exhausted cooperative budget are delivered right after that poll,
        // not at the next multiple of 61 scheduler ticks (which would depend on the deferral spin)
        .event_interval(1)
        .rng_seed(tokio::runtime::RngSeed::from_bytes(&seed.to_le_bytes()))
        .build()
        .expect("runtime");

    let wire = WireLog::new(ctl.clone());
    let watchdog = Duration::from_secs(scn.watchdog_secs());
    let mut judge: Option<Judge> = None;
    let mut env_out: Option<Env> = None;

    let completed = rt.block_on(async {
        let env = Env {
            ctl: ctl.clone(),
            wire: wire.clone(),
            seed,
            t0: tokio::time::Instant::now(),
            links: Arc::new(Mutex::new(Vec::new())),
            mux: Arc::new(Mutex::new(BTreeMap::new())),
        };
        env_out = Some(env.clone());
        wire.start_clock();
        let (root, j) = scn.start(env.clone());
        judge = Some(j);
        let h = env.spawn("main", 0, root);
        let r = tokio::time::timeout(watchdog, h).await.is_ok();
        r
    });

    let live = ctl.live_tasks();
    let schedule = ctl.schedule_names();
    let frozen = ctl.frozen();
    let divergence = ctl.divergence();
    // Stop everything before tearing down so that drops do not run further polls.
    ctl.freeze();
    drop(rt);
    remoc::exec::verif::install(None);

    let panics = PANICS.with(|p| p.borrow_mut().take()).unwrap_or_default();
    let ending = if divergence.is_some() {
        Ending::Diverged
    } else if completed {
        Ending::Completed
    } else if frozen {
        Ending::Horizon
    } else {
        Ending::Stuck
    };
    let env = env_out.unwrap();
    let trace = ctl.take_trace();
    let outcome = Outcome {
        ending,
        steps: ctl.step(),
        trace,
        wire: wire.snapshot(),
        panics,
        live,
        divergence,
        schedule,
        mux: env.mux.lock().unwrap().clone(),
        task_count: ctl.task_count(),
        port_allocs: ctl.port_allocs(),
    };
    let verdict = (judge.take().unwrap())(&outcome);
    (outcome, verdict)
}
