//! Small helpers shared by scenarios.

use bytes::Bytes;
use std::{
    future::Future,
    pin::Pin,
    sync::{Arc, Mutex},
    task::{Context, Poll},
};

use crate::{
    monitor::Ledger,
    world::{Finding, Outcome},
};

/// Result of a cancellable operation.
#[derive(Debug, Clone, PartialEq, Eq)]
pub enum Cancelled<T> {
    Done(T),
    /// Dropped at this poll index; `true` if it had been polled (was pending) before.
    Cancelled(u32),
}

/// Polls `fut`; at its `at`-th poll (0-based) drops it instead. If the future is still pending at
/// quiescence (nothing polls it any more), it is dropped then.
pub struct CancelAt<F: Future> {
    fut: Option<Pin<Box<F>>>,
    at: u32,
    polls: u32,
    idle: Pin<Box<tokio::time::Sleep>>,
}

pub fn cancel_at<F: Future>(fut: F, at: u32) -> CancelAt<F> {
    CancelAt {
        fut: Some(Box::pin(fut)),
        at,
        polls: 0,
        idle: Box::pin(tokio::time::sleep(std::time::Duration::from_millis(500))),
    }
}

impl<F: Future> Future for CancelAt<F> {
    type Output = Cancelled<F::Output>;
    fn poll(mut self: Pin<&mut Self>, cx: &mut Context<'_>) -> Poll<Self::Output> {
        if self.polls >= self.at || self.idle.as_mut().poll(cx).is_ready() {
            self.fut = None;
            return Poll::Ready(Cancelled::Cancelled(self.polls));
        }
        self.polls += 1;
        match self.fut.as_mut().unwrap().as_mut().poll(cx) {
            Poll::Ready(v) => {
                self.fut = None;
                Poll::Ready(Cancelled::Done(v))
            }
            Poll::Pending => Poll::Pending,
        }
    }
}

impl<F: Future> Unpin for CancelAt<F> {}

/// Yields once to the scheduler (one-position yield: self-wake).
pub struct YieldOnce(bool);

pub fn yield_once() -> YieldOnce {
    YieldOnce(false)
}

impl Future for YieldOnce {
    type Output = ();
    fn poll(mut self: Pin<&mut Self>, cx: &mut Context<'_>) -> Poll<()> {
        if self.0 {
            Poll::Ready(())
        } else {
            self.0 = true;
            cx.waker().wake_by_ref();
            Poll::Pending
        }
    }
}

/// Polls a future exactly once; returns Some(output) if it was ready.
pub async fn poll_once<F: Future>(fut: F) -> Option<F::Output> {
    let mut fut = Box::pin(fut);
    std::future::poll_fn(move |cx| match fut.as_mut().poll(cx) {
        Poll::Ready(v) => Poll::Ready(Some(v)),
        Poll::Pending => Poll::Ready(None),
    })
    .await
}

/// Deterministic content of message `i`: `n` bytes.
pub fn payload(i: usize, n: usize) -> Bytes {
    Bytes::from((0..n).map(|off| ((i * 37 + off * 11 + 1) % 251) as u8).collect::<Vec<u8>>())
}

pub fn hex(b: &[u8]) -> String {
    if b.len() <= 12 {
        b.iter().map(|x| format!("{x:02x}")).collect()
    } else {
        format!("{}..({}B)", b[..6].iter().map(|x| format!("{x:02x}")).collect::<String>(), b.len())
    }
}

pub type Shared<T> = Arc<Mutex<T>>;

pub fn shared<T>(v: T) -> Shared<T> {
    Arc::new(Mutex::new(v))
}

/// Ledger of link 0 with findings converted.
pub fn ledger_findings(out: &Outcome, link: u8, max_ports: [u32; 2], untrusted: [bool; 2]) -> (Ledger, Vec<Finding>) {
    let mut l = Ledger::new(link, max_ports);
    l.untrusted = untrusted;
    for ev in out.wire.iter().filter(|e| e.link == link) {
        l.feed(ev);
    }
    let f = l
        .violations
        .iter()
        .map(|v| Finding {
            prop: v.prop.to_string(),
            sig: format!("wire:{}", v.sig),
            detail: format!("{} (wire event #{})", v.detail, v.at),
        })
        .collect();
    (l, f)
}

/// Standard findings every scenario reports: panics.
pub fn panic_findings(out: &Outcome, prop: &str) -> Vec<Finding> {
    out.panics
        .iter()
        .map(|p| Finding {
            prop: prop.to_string(),
            sig: format!("panic:{}", p.split('\n').next().unwrap_or("").chars().take(80).collect::<String>()),
            detail: p.clone(),
        })
        .collect()
}
