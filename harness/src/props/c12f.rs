//! C12 for remote functions: RFn (concurrent), RFnMut (one call at a time), RFnOnce (one call).

use futures::future::BoxFuture;
use remoc::rfn::{CallError, RFn, RFnMut, RFnOnce};
use serde::{Deserialize, Serialize};
use std::{
    sync::{
        Arc, Mutex,
        atomic::{AtomicI64, AtomicU32, Ordering},
    },
    time::Duration,
};

use super::{
    c04::{base_pair, typed_cfg},
    c12::{Ev, Gate},
};
use crate::{
    net::LinkOpts,
    report::Tier,
    util::{Cancelled, cancel_at, panic_findings, shared, yield_once},
    world::{Ending, Env, Judge, Outcome, Scenario, Verdict},
};

#[derive(Debug, Clone, Copy, PartialEq, Eq, Hash)]
pub enum FKind {
    Const,
    Mut,
    Once,
}

#[derive(Debug, Clone, Copy, PartialEq, Eq, Hash)]
pub enum FCall {
    Add(i64),
    /// the call future is dropped at its p-th poll (or at quiescence)
    CancelAdd(i64, u32),
    Settle,
}

#[derive(Serialize, Deserialize)]
pub enum AnyFn {
    Const(RFn<(i64,), Result<i64, CallError>>),
    Mut(RFnMut<(i64,), Result<i64, CallError>>),
    Once(RFnOnce<(i64,), Result<i64, CallError>>),
}

#[derive(Debug, Clone)]
pub struct FRec {
    pub client: u8,
    pub arg: i64,
    pub invoked: u32,
    pub returned: u32,
    pub result: Result<i64, String>,
}

#[derive(Default)]
struct FObs {
    err: Option<String>,
    hist: Vec<FRec>,
    final_value: i64,
}

pub struct FnScenario {
    pub kind: FKind,
    /// per client: calls; client 0 uses the function on the endpoint that provides it, the others remotely
    pub scripts: Vec<Vec<FCall>>,
    /// executions wait at a gate between reading and writing the state; the harness opens it at quiescence
    pub gated: bool,
    pub cut_after: Option<u32>,
    pub sched: bool,
}

struct State {
    value: Mutex<i64>,
    atomic: AtomicI64,
    log: Mutex<Vec<Ev>>,
    next: AtomicU32,
    gate: Gate,
    gated: bool,
}

impl State {
    fn start(&self, arg: i64) -> u32 {
        let id = self.next.fetch_add(1, Ordering::SeqCst);
        self.log.lock().unwrap().push(Ev::Start { id, method: "f", arg });
        id
    }
    fn finish(&self, id: u32, result: i64) {
        self.log.lock().unwrap().push(Ev::Finish { id, result });
    }
    /// Body of a function that owns its state exclusively (FnMut / FnOnce): read, suspend, write.
    async fn exclusive(self: Arc<Self>, n: i64) -> Result<i64, CallError> {
        let id = self.start(n);
        let old = *self.value.lock().unwrap();
        if self.gated {
            self.gate.pass().await;
        } else {
            yield_once().await;
        }
        *self.value.lock().unwrap() = old + n;
        self.finish(id, old);
        Ok(old)
    }
    /// Body of a function that may run concurrently (Fn).
    async fn concurrent(self: Arc<Self>, n: i64) -> Result<i64, CallError> {
        let id = self.start(n);
        let old = self.atomic.fetch_add(n, Ordering::SeqCst);
        if self.gated {
            self.gate.pass().await;
        } else {
            yield_once().await;
        }
        self.finish(id, old);
        Ok(old)
    }
}

async fn call_fn(f: &mut Option<AnyFn>, n: i64) -> Result<i64, String> {
    let r = match f {
        Some(AnyFn::Const(f)) => f.call(n).await,
        Some(AnyFn::Mut(f)) => f.call(n).await,
        Some(AnyFn::Once(_)) => match f.take() {
            Some(AnyFn::Once(f)) => f.call(n).await,
            _ => unreachable!(),
        },
        None => return Err("consumed".into()),
    };
    r.map_err(|e| format!("{e:?}").chars().take(50).collect())
}

impl Scenario for FnScenario {
    fn id(&self) -> String {
        format!("c12f/{:?}/{:?}/gated{}/cut{:?}/s{}", self.kind, self.scripts, self.gated as u8, self.cut_after, self.sched as u8)
    }

    fn start(&self, env: Env) -> (BoxFuture<'static, ()>, Judge) {
        let obs = shared(FObs::default());
        let o2 = obs.clone();
        let (kind, scripts, gated, cut_after, sched) = (self.kind, self.scripts.clone(), self.gated, self.cut_after, self.sched);
        let state = Arc::new(State { value: Mutex::new(0), atomic: AtomicI64::new(0), log: Mutex::new(Vec::new()), next: AtomicU32::new(0), gate: Gate(tokio::sync::Semaphore::new(0)), gated });
        let st_judge = state.clone();
        let root = async move {
            env.explore(false);
            let link = LinkOpts { capacity: 2, deliver_cap: 2, eof_on_drop: true };
            let ab = base_pair::<AnyFn, AnyFn, (), ()>(&env, typed_cfg(), typed_cfg(), link).await;
            let ((mut a_tx, _a_rx, k1, k2), (_b_tx, mut b_rx, k3, k4)) = match ab {
                Ok(x) => x,
                Err(e) => {
                    o2.lock().unwrap().err = Some(e);
                    return;
                }
            };
            // the function is provided on endpoint A
            let st = state.clone();
            let (local, to_ship): (Option<AnyFn>, AnyFn) = match kind {
                FKind::Const => {
                    let f = RFn::new_1(move |n: i64| st.clone().concurrent(n));
                    (Some(AnyFn::Const(f.clone())), AnyFn::Const(f))
                }
                FKind::Mut => (None, AnyFn::Mut(RFnMut::new_1(move |n: i64| st.clone().exclusive(n)))),
                FKind::Once => (None, AnyFn::Once(RFnOnce::new_1(move |n: i64| st.clone().exclusive(n)))),
            };
            let (s, r) = tokio::join!(a_tx.send(to_ship), b_rx.recv());
            let remote = match (s, r) {
                (Ok(()), Ok(Some(f))) => f,
                _ => {
                    o2.lock().unwrap().err = Some("ship function".into());
                    return;
                }
            };
            env.quiesce().await;
            env.explore(sched);
            if let Some(c) = cut_after {
                let (sent, _, _) = env.dir(0, 1).counts();
                let env2 = env.clone();
                env.spawn("cutter", 0, async move {
                    loop {
                        let (s, _, _) = env2.dir(0, 1).counts();
                        if s >= sent + c {
                            env2.dir(0, 0).cut();
                            env2.dir(0, 1).cut();
                            return;
                        }
                        yield_once().await;
                        if env2.step() > 15_000 {
                            return;
                        }
                    }
                });
            }
            let mut tasks = Vec::new();
            let mut remote = Some(remote);
            for (i, script) in scripts.iter().enumerate() {
                let f = if i == 0 {
                    match &local {
                        Some(AnyFn::Const(f)) => Some(AnyFn::Const(f.clone())),
                        _ => None,
                    }
                } else {
                    match remote.as_ref() {
                        Some(AnyFn::Const(f)) => Some(AnyFn::Const(f.clone())),
                        _ => remote.take(),
                    }
                };
                let Some(f) = f else { continue };
                let (env2, o3, script) = (env.clone(), o2.clone(), script.clone());
                tasks.push(env.spawn(&format!("caller{i}"), if i == 0 { 1 } else { 2 }, async move {
                    let mut f = Some(f);
                    for c in script {
                        let invoked = env2.step();
                        let (arg, result) = match c {
                            FCall::Settle => {
                                env2.quiesce().await;
                                continue;
                            }
                            FCall::Add(n) => (n, call_fn(&mut f, n).await),
                            FCall::CancelAdd(n, p) => (
                                n,
                                match cancel_at(call_fn(&mut f, n), p).await {
                                    Cancelled::Done(r) => r,
                                    Cancelled::Cancelled(_) => Err("cancelled".into()),
                                },
                            ),
                        };
                        let returned = env2.step();
                        o3.lock().unwrap().hist.push(FRec { client: i as u8, arg, invoked, returned, result });
                    }
                }));
            }
            drop(local);
            drop(remote);
            // the harness lets gated executions proceed one at a time whenever nothing else can move
            if gated {
                for _ in 0..12 {
                    env.quiesce().await;
                    if tasks.iter().all(|t| t.is_finished()) {
                        break;
                    }
                    state.gate.open(1);
                }
                state.gate.open(1000);
            }
            for t in tasks {
                let _ = tokio::time::timeout(Duration::from_secs(600), t).await;
            }
            env.explore(false);
            env.quiesce().await;
            o2.lock().unwrap().final_value = match kind {
                FKind::Const => state.atomic.load(Ordering::SeqCst),
                _ => *state.value.lock().unwrap(),
            };
            drop((a_tx, b_rx, k1, k2, k3, k4));
        };
        let judge: Judge = Box::new(move |out: &Outcome| {
            let o = obs.lock().unwrap();
            let log: Vec<Ev> = st_judge.log.lock().unwrap().clone();
            let mut v = Verdict::default();
            v.findings.extend(panic_findings(out, "C12"));
            let kn = format!("{kind:?}");
            if let Some(e) = &o.err {
                v.fail("C12", "rfn-setup-failed", e.clone());
            } else if out.ending != Ending::Completed {
                v.fail("C12", format!("rfn-call-never-completes:{kn}"), format!("{:?}: history {:?}", out.ending, o.hist));
            } else {
                // executions: (id, arg, result if finished)
                let mut execs: Vec<(u32, i64, Option<i64>)> = Vec::new();
                let mut open: Vec<u32> = Vec::new();
                let mut overlap = false;
                for e in &log {
                    match e {
                        Ev::Start { id, arg, .. } => {
                            if !open.is_empty() {
                                overlap = true;
                            }
                            open.push(*id);
                            execs.push((*id, *arg, None));
                        }
                        Ev::Finish { id, result } => {
                            open.retain(|x| x != id);
                            if let Some(x) = execs.iter_mut().find(|x| x.0 == *id) {
                                x.2 = Some(*result);
                            }
                        }
                        Ev::Mid { .. } => {}
                    }
                }
                let ctx = format!("history {:?}; executions {:?}; final value {}", o.hist, execs, o.final_value);
                // own result of exactly one execution
                let mut used = vec![false; execs.len()];
                for r in &o.hist {
                    if let Ok(res) = &r.result {
                        match execs.iter().enumerate().find(|(i, e)| !used[*i] && e.1 == r.arg && e.2 == Some(*res)) {
                            Some((i, _)) => used[i] = true,
                            None => v.fail("C12", format!("rfn-result-without-own-execution:{kn}"), format!("caller {} f({}) returned {res}; {ctx}", r.client, r.arg)),
                        }
                    }
                }
                // at most once
                for r in &o.hist {
                    let n_exec = execs.iter().filter(|e| e.1 == r.arg).count();
                    let n_call = o.hist.iter().filter(|h| h.arg == r.arg).count();
                    if n_exec > n_call {
                        v.fail("C12", format!("rfn-executed-more-than-once:{kn}"), format!("f({}) ran {n_exec} times for {n_call} calls; {ctx}", r.arg));
                    }
                }
                if kind == FKind::Once && execs.len() > 1 {
                    v.fail("C12", "rfn-once-ran-twice", ctx.clone());
                }
                // a function that takes its state mutably runs one call at a time
                if kind != FKind::Const {
                    if overlap {
                        v.fail("C12", format!("rfn-mut-executions-overlap:{kn}"), ctx.clone());
                    }
                    let done: i64 = execs.iter().filter(|e| e.2.is_some()).map(|e| e.1).sum();
                    if o.final_value != done {
                        v.fail("C12", format!("rfn-mut-lost-update:{kn}"), format!("sum of finished executions {done}; {ctx}"));
                    }
                }
                if cut_after.is_none() {
                    for r in &o.hist {
                        if let Err(e) = &r.result {
                            if e != "cancelled" && e != "consumed" {
                                v.fail("C12", format!("rfn-call-failed-on-healthy-connection:{kn}"), format!("caller {} f({}): {e}", r.client, r.arg));
                            }
                        }
                    }
                }
                // results are consistent with a sequential order that respects real time
                let ok: Vec<&FRec> = o.hist.iter().filter(|r| r.result.is_ok()).collect();
                let maybe: Vec<&FRec> = o.hist.iter().filter(|r| r.result.is_err() && execs.iter().any(|e| e.1 == r.arg)).collect();
                if ok.len() + maybe.len() <= 7 && !sequential_order_exists(&ok, &maybe) {
                    v.fail("C12", format!("rfn-not-linearizable:{kn}"), ctx.clone());
                }
            }
            v.outcome = format!("{:?}|{}", o.hist.iter().map(|r| (r.client, r.arg, r.result.clone())).collect::<Vec<_>>(), o.final_value);
            v.nontrivial = o.hist.iter().filter(|r| r.result.is_ok()).count() >= 1;
            v
        });
        (Box::pin(root), judge)
    }
}

fn sequential_order_exists(ok: &[&FRec], maybe: &[&FRec]) -> bool {
    let n_maybe = maybe.len().min(3);
    for mask in 0..(1u32 << n_maybe) {
        let mut calls: Vec<(&FRec, bool)> = ok.iter().map(|r| (*r, true)).collect();
        for (i, m) in maybe.iter().take(n_maybe).enumerate() {
            if mask & (1 << i) != 0 {
                calls.push((*m, false));
            }
        }
        let mut used = vec![false; calls.len()];
        if search(&calls, &mut used, 0, 0) {
            return true;
        }
    }
    false
}

fn search(calls: &[(&FRec, bool)], used: &mut Vec<bool>, placed: usize, value: i64) -> bool {
    if placed == calls.len() {
        return true;
    }
    for i in 0..calls.len() {
        if used[i] {
            continue;
        }
        // a call that returned before another was invoked comes first (abandoned calls have no return time that binds)
        if (0..calls.len()).any(|j| !used[j] && j != i && calls[j].1 && calls[j].0.returned < calls[i].0.invoked) {
            continue;
        }
        let (r, check) = calls[i];
        if check && r.result != Ok(value) {
            continue;
        }
        used[i] = true;
        if search(calls, used, placed + 1, value + r.arg) {
            return true;
        }
        used[i] = false;
    }
    false
}

fn mk(kind: FKind, scripts: Vec<Vec<FCall>>, gated: bool, cut_after: Option<u32>, sched: bool) -> Arc<dyn Scenario> {
    Arc::new(FnScenario { kind, scripts, gated, cut_after, sched })
}

pub fn grid(tier: Tier) -> Vec<Arc<dyn Scenario>> {
    use FCall::*;
    let q = tier == Tier::Quick;
    let mut out: Vec<Arc<dyn Scenario>> = Vec::new();
    for gated in [false, true] {
        // RFn: local and remote clones calling concurrently
        for scripts in [
            vec![vec![Add(1)], vec![Add(2)]],
            vec![vec![Add(1), Add(4)], vec![Add(2), Add(8)]],
            vec![vec![Add(1)], vec![Add(2)], vec![Add(4)]],
            vec![vec![], vec![Add(1), Add(2), Add(4)]],
        ] {
            out.push(mk(FKind::Const, scripts, gated, None, false));
        }
        // RFnMut: one remote holder; sequential calls, and calls abandoned at every stage followed by further calls
        out.push(mk(FKind::Mut, vec![vec![], vec![Add(1), Add(2), Add(4)]], gated, None, false));
        for p in 1..=(if q { 6 } else { 12 }) {
            out.push(mk(FKind::Mut, vec![vec![], vec![CancelAdd(1, p), Add(2), Add(4)]], gated, None, false));
            out.push(mk(FKind::Mut, vec![vec![], vec![Add(1), CancelAdd(2, p), Add(4), Settle]], gated, None, false));
            out.push(mk(FKind::Mut, vec![vec![], vec![CancelAdd(1, p), CancelAdd(2, p), Add(4)]], gated, None, false));
            out.push(mk(FKind::Const, vec![vec![Add(8)], vec![CancelAdd(1, p), Add(2)]], gated, None, false));
        }
        out.push(mk(FKind::Once, vec![vec![], vec![Add(3)]], gated, None, false));
        for p in 1..=6 {
            out.push(mk(FKind::Once, vec![vec![], vec![CancelAdd(3, p), Settle]], gated, None, false));
        }
    }
    // connection cut at every frame of the call / reply
    for c in 0..(if q { 8 } else { 16 }) {
        out.push(mk(FKind::Mut, vec![vec![], vec![Add(1), Add(2)]], false, Some(c), false));
        out.push(mk(FKind::Const, vec![vec![Add(4)], vec![Add(1), Add(2)]], false, Some(c), false));
        out.push(mk(FKind::Once, vec![vec![], vec![Add(3)]], false, Some(c), false));
    }
    out
}

pub fn core(_tier: Tier) -> Vec<Arc<dyn Scenario>> {
    use FCall::*;
    vec![
        mk(FKind::Const, vec![vec![Add(1)], vec![Add(2)], vec![Add(4)]], false, None, true),
        mk(FKind::Mut, vec![vec![], vec![CancelAdd(1, 3), Add(2)]], false, None, true),
        mk(FKind::Mut, vec![vec![], vec![Add(1), Add(2)]], false, None, true),
        mk(FKind::Once, vec![vec![], vec![Add(3)]], false, None, true),
    ]
}
