//! C02 Flow control safety: the wire-monitor invariants (receive buffer, chunk size, credit never
//! granted beyond consumption) evaluated at every prefix of every wire log of the hosting
//! scenarios of C01 and C03 plus a dedicated traffic mix with arbitrarily delayed credit frames.

use std::{sync::Arc, time::Duration};

use super::{
    c01::{self, Op, RecvStyle},
    c03::{self, LeakScenario},
};
use crate::{
    explore::{Params, explore},
    net::LinkOpts,
    report::{Report, Tier, known_sigs},
    world::{Scenario, cfg},
};

/// Traffic mixes: data of any size, empty messages, port-request batches, failing try_sends and
/// cancelled sends, with the credit-carrying direction held back for long stretches.
pub fn mix(tier: Tier) -> Vec<Arc<dyn Scenario>> {
    let link = LinkOpts { capacity: 1, deliver_cap: 1, eof_on_drop: false };
    let mut out: Vec<Arc<dyn Scenario>> = Vec::new();
    let cfgs = [
        (cfg(4, 8, 16, 2, 1), cfg(4, 16, 16, 2, 1)),
        (cfg(8, 64, 16, 1, 1), cfg(4, 8, 8, 1, 1)),
        (cfg(4, 16, 16, 3, 2), cfg(5, 11, 16, 1, 1)),
    ];
    let n = if tier == Tier::Quick { 2 } else { 3 };
    for (a, b) in cfgs.iter().take(n) {
        let rb = b.receive_buffer as usize;
        let cs = b.chunk_size as usize;
        let scripts = vec![
            vec![Op::HoldRev, Op::Send(rb), Op::Quiesce, Op::TrySend(1), Op::TrySend(0), Op::ReleaseRev, Op::Send(rb + 1), Op::Send(0), Op::Send(0)],
            vec![Op::Send(rb / 2), Op::HoldRev, Op::TrySend(rb), Op::TrySend(rb / 2), Op::TrySend(cs + 1), Op::Quiesce, Op::ReleaseRev, Op::Send(2 * rb + 1)],
            vec![Op::Hold, Op::TrySend(2 * cs), Op::TrySend(2 * cs), Op::TrySend(3 * cs), Op::TrySend(cs + 1), Op::Release, Op::Quiesce, Op::Send(rb), Op::Send(rb)],
            vec![Op::TrySend(3 * cs), Op::TrySend(3 * cs), Op::TrySend(3 * cs), Op::Send(rb), Op::TrySend(2 * cs), Op::Send(1)],
            vec![Op::HoldRev, Op::Connect(1, true), Op::Send(0), Op::Send(0), Op::Quiesce, Op::ReleaseRev, Op::Connect(3, true), Op::Send(rb)],
            vec![Op::Send(0), Op::Send(0), Op::Send(0), Op::Send(0), Op::Send(0), Op::Send(0), Op::Send(0), Op::Send(0), Op::Send(0), Op::Send(0), Op::Send(0), Op::Send(0), Op::Send(0), Op::Send(0), Op::Send(0), Op::Send(0), Op::Send(0), Op::Send(1)],
            vec![Op::CancelSend(3 * rb, 3), Op::Send(rb), Op::CancelSend(rb + 1, 2), Op::TrySend(rb), Op::Send(rb)],
            vec![Op::Chunks(vec![rb, 0, 0, rb], c01::End::Finish), Op::Chunks(vec![0, 0, 0], c01::End::Abandon), Op::Send(rb)],
        ];
        for s in scripts {
            for style in [RecvStyle::AnyAfterCancel, RecvStyle::CancelEach(1)] {
                out.push(Arc::new(LeakScenario { cfg_a: a.clone(), cfg_b: b.clone(), script: s.clone(), link, style }));
            }
        }
    }
    out
}

pub fn all_scenarios(tier: Tier) -> Vec<Arc<dyn Scenario>> {
    let mut v = mix(tier);
    v.extend(c01::grid(tier));
    v.extend(c01::core(tier));
    v.extend(c03::all_scenarios(tier));
    v
}

pub fn run(tier: Tier, seed: u64) -> i32 {
    let mut rep = Report::new("C02", tier, seed);
    let known = known_sigs("C02");
    let q = tier == Tier::Quick;
    let p = Params { max_dev: if q { 1 } else { 2 }, seeds: vec![seed], time_limit: Duration::from_secs(if q { 15 } else { 400 }), ..Default::default() };
    rep.add("dedicated traffic mixes with held-back credit frames", explore("C02", mix(tier), p, &known));
    let p0 = Params { max_dev: 0, seeds: vec![seed], time_limit: Duration::from_secs(if q { 10 } else { 120 }), ..Default::default() };
    let mut hosts = c01::grid(tier);
    hosts.extend(c03::leak_scenarios(tier));
    hosts.extend(c03::connect_scenarios(tier));
    rep.add("hosting grids of C01/C03 at d=0", explore("C02", hosts, p0, &known));
    let p = Params { max_dev: if q { 2 } else { 3 }, seeds: vec![seed], time_limit: Duration::from_secs(if q { 25 } else { 600 }), ..Default::default() };
    let mut hosts = c01::core(tier);
    hosts.extend(c03::leak_core(tier));
    hosts.extend(c03::isolation_scenarios(tier));
    rep.add("hosting core scenarios of C01/C03 under schedule exploration", explore("C02", hosts, p, &known));
    rep.rule = "a case = one explored execution (scenario + deviation list); the invariant is evaluated at every prefix of its wire log by the independent ledger: outstanding bytes = cost put on wire - credit delivered <= peer receive_buffer, payload <= peer chunk_size, 4*ports <= chunk_size, credit granted <= cost delivered; distinct = distinct observation log; non-trivial = the scenario's own interesting event happened".into();
    rep.assumptions = vec![
        "credit counts as granted to the sender when the PortCredits frame is delivered to it (tightest sound reading)".into(),
        "ledger written from /verif/spec/chmux_v3.md, independent of remoc's own credit monitor".into(),
    ];
    rep.finish()
}
