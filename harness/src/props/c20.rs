//! C20 Handles and lazy values: confinement, type safety, fidelity, release.

use bytes::Bytes;
use futures::future::BoxFuture;
use remoc::{
    chmux::Cfg,
    codec,
    rch::base,
    robj::{
        handle::{Handle, HandleError},
        lazy::Lazy,
        lazy_blob::LazyBlob,
    },
};
use std::{
    sync::{
        Arc,
        atomic::{AtomicU32, Ordering},
    },
    time::Duration,
};

use super::c04::carrier_cfg;
use crate::{
    explore::{Params, explore},
    net::LinkOpts,
    report::{Report, Tier, known_sigs},
    util::{hex, panic_findings, payload, shared, yield_once},
    world::{Ending, Env, Judge, Outcome, Scenario, Verdict},
};

type C = codec::Default;

/// The stored value: knows its identity and counts its drops.
pub struct Tracked {
    pub id: u32,
    pub drops: Arc<AtomicU32>,
}

impl Drop for Tracked {
    fn drop(&mut self) {
        self.drops.fetch_add(1, Ordering::SeqCst);
    }
}

// `Handle<T>: Clone` is derived and therefore asks for `T: Clone`, although cloning a handle never
// clones the stored value.
impl Clone for Tracked {
    fn clone(&self) -> Self {
        panic!("the value stored behind a handle was cloned")
    }
}

#[derive(Clone)]
pub struct Other(#[allow(dead_code)] pub u64);

/// Endpoints: 0 = A (creator), 1 = B, 2 = C. Links: AB, BC, CA.
#[derive(Debug, Clone, Copy, PartialEq, Eq)]
pub enum Step {
    /// send the handle from endpoint x to endpoint y (must be linked)
    Move(u8, u8),
    /// clone the handle where it is; the clone stays there (kept until the end or dropped by DropClones)
    CloneHere,
    /// send a clone from x to y, dereference it there and keep it there; the original stays at x
    MoveClone(u8, u8),
    /// as_ref at the current location
    AsRef,
    /// as_mut at the current location
    AsMut,
    /// cast to another type and as_ref, then cast back
    CastAsRef,
    /// into_inner at the current location (consumes the travelling handle)
    IntoInner,
    /// drop all clones made so far
    DropClones,
    /// drop the provider (value must be released although handles exist)
    DropProvider,
    /// wait for quiescence
    Settle,
}

#[derive(Debug, Clone, PartialEq, Eq)]
pub struct HandleScenario {
    pub steps: Vec<Step>,
    /// use Handle::provided (provider kept until DropProvider / end) instead of Handle::new
    pub provided: bool,
}

#[derive(Default)]
struct HObs {
    /// (step index, location, connection-correct?, result)
    results: Vec<(usize, u8, String)>,
    err: Option<String>,
    drops_while_alive: Vec<(usize, u32)>,
    drops_end: Option<u32>,
    taken: bool,
}

struct Links {
    /// tx[x][y]: sender at x towards y; rx[x][y]: receiver at y for items from x
    tx: Vec<Vec<Option<base::Sender<Handle<Tracked>>>>>,
    rx: Vec<Vec<Option<base::Receiver<Handle<Tracked>>>>>,
    keep: Vec<Box<dyn std::any::Any + Send>>,
}

async fn triangle(env: &Env) -> Result<Links, String> {
    let link = LinkOpts { capacity: 2, deliver_cap: 2, eof_on_drop: false };
    let mut l = Links { tx: (0..3).map(|_| (0..3).map(|_| None).collect()).collect(), rx: (0..3).map(|_| (0..3).map(|_| None).collect()).collect(), keep: Vec::new() };
    for (x, y) in [(0usize, 1usize), (1, 2), (2, 0)] {
        let (nx, ny) = (format!("E{x}{y}"), format!("E{y}{x}"));
        let ((cx, mut lx), (cy, mut ly)) = env.pair_named(&nx, 1 + x as u8, carrier_cfg(), &ny, 1 + y as u8, carrier_cfg(), link, &[]).await?;
        let a = env.spawn("bc-x", 1 + x as u8, async move {
            let r = base::connect::<Handle<Tracked>, Handle<Tracked>, C>(&cx, &mut lx).await;
            (r, cx, lx)
        });
        let b = env.spawn("bc-y", 1 + y as u8, async move {
            let r = base::connect::<Handle<Tracked>, Handle<Tracked>, C>(&cy, &mut ly).await;
            (r, cy, ly)
        });
        let (ra, cx, lx) = a.await.map_err(|e| e.to_string())?;
        let (rb, cy, ly) = b.await.map_err(|e| e.to_string())?;
        let (txx, rxx) = ra.map_err(|e| e.to_string())?;
        let (txy, rxy) = rb.map_err(|e| e.to_string())?;
        l.tx[x][y] = Some(txx);
        l.rx[y][x] = Some(rxx); // items from y arrive at x
        l.tx[y][x] = Some(txy);
        l.rx[x][y] = Some(rxy); // items from x arrive at y
        l.keep.push(Box::new((cx, lx, cy, ly)));
    }
    Ok(l)
}

fn herr(e: &HandleError) -> String {
    match e {
        HandleError::Unknown => "Unknown".into(),
        HandleError::MismatchedType(_) => "MismatchedType".into(),
    }
}

impl Scenario for HandleScenario {
    fn id(&self) -> String {
        format!("c20h/{:?}/prov{}", self.steps, self.provided as u8)
    }

    fn start(&self, env: Env) -> (BoxFuture<'static, ()>, Judge) {
        let obs = shared(HObs::default());
        let p = self.clone();
        let o2 = obs.clone();
        let root = async move {
            env.explore(false);
            let mut l = match triangle(&env).await {
                Ok(l) => l,
                Err(e) => {
                    o2.lock().unwrap().err = Some(e);
                    return;
                }
            };
            env.explore(true);
            let drops = Arc::new(AtomicU32::new(0));
            let value = Tracked { id: 4242, drops: drops.clone() };
            let (handle, mut provider) = if p.provided {
                let (h, pr) = Handle::<Tracked, C>::provided(value);
                (h, Some(pr))
            } else {
                (Handle::<Tracked, C>::new(value), None)
            };
            let mut cur = Some(handle);
            let mut loc = 0u8;
            let mut clones: Vec<Handle<Tracked>> = Vec::new();
            for (i, st) in p.steps.iter().enumerate() {
                match *st {
                    Step::Move(x, y) => {
                        if loc != x || cur.is_none() {
                            o2.lock().unwrap().results.push((i, loc, "skipped".into()));
                            continue;
                        }
                        let h = cur.take().unwrap();
                        let tx = l.tx[x as usize][y as usize].as_mut().unwrap();
                        let rx = l.rx[x as usize][y as usize].as_mut().unwrap();
                        let (s, r) = tokio::join!(tx.send(h), rx.recv());
                        match (s, r) {
                            (Ok(()), Ok(Some(h))) => {
                                cur = Some(h);
                                loc = y;
                                o2.lock().unwrap().results.push((i, loc, "moved".into()));
                            }
                            (s, r) => {
                                o2.lock().unwrap().results.push((i, loc, format!("move-failed:{:?}/{:?}", s.map_err(|e| e.to_string()), r.map(|o| o.is_some()).map_err(|e| e.to_string()))));
                            }
                        }
                    }
                    Step::CloneHere => {
                        if let Some(h) = &cur {
                            clones.push(h.clone());
                        }
                    }
                    Step::MoveClone(x, y) => {
                        if loc != x || cur.is_none() {
                            o2.lock().unwrap().results.push((i, loc, "skipped".into()));
                            continue;
                        }
                        let c = cur.as_ref().unwrap().clone();
                        let tx = l.tx[x as usize][y as usize].as_mut().unwrap();
                        let rx = l.rx[x as usize][y as usize].as_mut().unwrap();
                        let (s, r) = tokio::join!(tx.send(c), rx.recv());
                        match (s, r) {
                            (Ok(()), Ok(Some(h))) => {
                                let r = match h.as_ref().await {
                                    Ok(v) => format!("value:{}", v.id),
                                    Err(e) => format!("err:{}", herr(&e)),
                                };
                                clones.push(h);
                                o2.lock().unwrap().results.push((i, y, format!("clone-{r}")));
                            }
                            _ => o2.lock().unwrap().results.push((i, loc, "move-failed".into())),
                        }
                    }
                    Step::AsRef | Step::AsMut | Step::CastAsRef => {
                        let r = match (&mut cur, *st) {
                            (Some(h), Step::AsRef) => match h.as_ref().await {
                                Ok(v) => format!("value:{}", v.id),
                                Err(e) => format!("err:{}", herr(&e)),
                            },
                            (Some(h), Step::AsMut) => match h.as_mut().await {
                                Ok(v) => format!("value:{}", v.id),
                                Err(e) => format!("err:{}", herr(&e)),
                            },
                            (Some(_), _) => {
                                let h = cur.take().unwrap();
                                let c: Handle<Other, C> = h.cast();
                                let r = match c.as_ref().await {
                                    Ok(_) => "value:other-type".to_string(),
                                    Err(e) => format!("err:{}", herr(&e)),
                                };
                                cur = Some(c.cast());
                                r
                            }
                            (None, _) => "no-handle".into(),
                        };
                        o2.lock().unwrap().results.push((i, loc, r));
                    }
                    Step::IntoInner => {
                        if let Some(h) = cur.take() {
                            let r = match h.into_inner().await {
                                Ok(v) => {
                                    o2.lock().unwrap().taken = true;
                                    format!("taken:{}", v.id)
                                }
                                Err(e) => format!("err:{}", herr(&e)),
                            };
                            o2.lock().unwrap().results.push((i, loc, r));
                        }
                    }
                    Step::DropClones => clones.clear(),
                    Step::DropProvider => drop(provider.take()),
                    Step::Settle => env.quiesce().await,
                }
                let alive = cur.is_some() || !clones.is_empty();
                if alive {
                    o2.lock().unwrap().drops_while_alive.push((i, drops.load(Ordering::SeqCst)));
                }
                yield_once().await;
            }
            // the clones can still dereference at the end if the value is alive and they are at the origin
            drop(cur);
            drop(clones);
            drop(provider);
            env.quiesce().await;
            env.quiesce().await;
            o2.lock().unwrap().drops_end = Some(drops.load(Ordering::SeqCst));
            env.explore(false);
            drop(l);
        };
        let p = self.clone();
        let judge: Judge = Box::new(move |out: &Outcome| {
            let o = obs.lock().unwrap();
            let mut v = Verdict::default();
            v.findings.extend(panic_findings(out, "C20"));
            if let Some(e) = &o.err {
                v.fail("C20", "setup-failed", e.clone());
            } else if out.ending != Ending::Completed {
                v.fail("C20", "handle-scenario-stuck", format!("{:?}: {:?}", out.ending, o.results));
            } else {
                // model: where is the handle, was it ever received over a connection other than the one it left on
                let mut loc = 0u8;
                let mut route: Vec<(u8, u8)> = Vec::new();
                let mut taken = false;
                let mut provider_dropped = false;
                for (i, st) in p.steps.iter().enumerate() {
                    let res = o.results.iter().find(|r| r.0 == i).map(|r| r.2.clone());
                    match *st {
                        Step::Move(x, y) => {
                            if res.as_deref() == Some("moved") {
                                route.push((x, y));
                                loc = y;
                            }
                        }
                        Step::MoveClone(x, y) => {
                            if let Some(res) = res.filter(|r| r != "skipped" && r != "move-failed") {
                                // the clone arrives at y: it is dereferencable iff y is the origin and the
                                // original left the origin towards x (the endpoint the clone comes from)
                                let mut last_out: Option<u8> = None;
                                let mut ok_route = true;
                                for (a, b) in &route {
                                    if *a == 0 {
                                        last_out = Some(*b);
                                    }
                                    if *b == 0 && last_out != Some(*a) {
                                        ok_route = false;
                                    }
                                }
                                let first = route.first().map(|(_, b)| *b);
                                let only_first = route.iter().all(|(a, b)| (*a == 0 && Some(*b) == first) || (*b == 0 && Some(*a) == first));
                                let should = y == 0 && ok_route && only_first && last_out == Some(x) && !taken && !provider_dropped;
                                if res == "clone-value:4242" && !(y == 0 && !taken) {
                                    v.fail("C20", "handle-dereferenced-away-from-origin", format!("step {i} {st:?}: {res} (route {route:?})"));
                                } else if res.starts_with("clone-value") && res != "clone-value:4242" {
                                    v.fail("C20", "wrong-value-obtained", format!("step {i} {st:?}: {res}"));
                                } else if should && res != "clone-value:4242" {
                                    v.fail("C20", "valid-handle-clone-rejected", format!("step {i} {st:?}: a clone sent back to the origin over the connection the handle left on gave {res} (route {route:?})"));
                                }
                            }
                        }
                        Step::DropProvider => provider_dropped = p.provided,
                        Step::AsRef | Step::AsMut | Step::CastAsRef | Step::IntoInner => {
                            let Some(res) = res else { continue };
                            // dereferencable iff at the origin and every departure from the origin came back over
                            // the same connection: the route is a sequence of round trips 0->x ... x->0 where the
                            // leg returning to 0 uses the link it left on
                            let at_origin = loc == 0;
                            let same_connection = {
                                // the last arrival at the origin must come over the connection on which the
                                // handle first left it
                                let first = route.first().map(|(_, y)| *y);
                                match route.iter().rev().find(|(_, y)| *y == 0) {
                                    Some((x, _)) => Some(*x) == first,
                                    None => true,
                                }
                            };
                            // the handle is bound to the connection over which it first left its origin; a
                            // return is only required to work if it never travelled over any other connection
                            let first = route.first().map(|(_, y)| *y);
                            let only_first_connection = route.iter().all(|(x, y)| (*x == 0 && Some(*y) == first) || (*y == 0 && Some(*x) == first));
                            let should_work = at_origin && same_connection && only_first_connection && !taken && !provider_dropped;
                            let is_value = res == "value:4242" || res == "taken:4242";
                            if res.starts_with("value") && res != "value:4242" || res.starts_with("taken") && res != "taken:4242" {
                                v.fail("C20", "wrong-value-obtained", format!("step {i} {st:?}: {res}"));
                            }
                            if *st == Step::CastAsRef {
                                if res.starts_with("value") {
                                    v.fail("C20", "cast-handle-yields-value", format!("step {i}: {res} (route {route:?})"));
                                }
                                if should_work && res != "err:MismatchedType" {
                                    v.fail("C20", "cast-error-kind", format!("step {i}: {res}"));
                                }
                            } else if is_value && !(at_origin && !taken) {
                                v.fail("C20", "handle-dereferenced-away-from-origin", format!("step {i} {st:?} at endpoint {loc} (route {route:?}, taken {taken}): {res}"));
                            } else if is_value && !same_connection {
                                v.fail("C20", "handle-accepted-over-foreign-connection", format!("step {i} {st:?}: route {route:?} returned to the origin over another connection, yet {res}"));
                            } else if should_work && !is_value {
                                v.fail("C20", "valid-handle-rejected", format!("step {i} {st:?} at origin, route {route:?}: {res}"));
                            }
                            if *st == Step::IntoInner && res.starts_with("taken") {
                                taken = true;
                            }
                        }
                        _ => {}
                    }
                }
                // release: not before the last handle / provider is gone, exactly once afterwards
                for (i, d) in &o.drops_while_alive {
                    let prov_gone = p.provided && p.steps.iter().take(i + 1).any(|s| *s == Step::DropProvider);
                    let was_taken = o.taken;
                    if *d > 0 && !prov_gone && !was_taken {
                        v.fail("C20", "value-released-while-handles-exist", format!("after step {i} ({:?}) the value had been dropped {d} times although a handle still existed and the provider was kept", p.steps[*i]));
                    }
                }
                match o.drops_end {
                    Some(1) => {}
                    other => v.fail("C20", "value-not-released-exactly-once", format!("after every handle and the provider were dropped (and quiescence) the stored value had been dropped {other:?} times; steps {:?}", p.steps)),
                }
            }
            v.outcome = format!("{:?}|{:?}|{:?}", o.results, o.drops_end, out.ending);
            v.nontrivial = o.results.iter().any(|r| r.2 == "moved");
            v
        });
        (Box::pin(root), judge)
    }
}

#[derive(Debug, Clone, Copy, PartialEq, Eq)]
pub enum LazyKind {
    Blob,
    Value,
}

#[derive(Debug, Clone, PartialEq, Eq)]
pub struct LazyScenario {
    pub kind: LazyKind,
    pub size: usize,
    /// number of connections the lazy value travels over (1..=3)
    pub hops: u8,
    /// fetch twice concurrently at the destination
    pub double_fetch: bool,
    /// cut connection `link` after `frames` more frames in the data direction once the fetch started
    pub cut: Option<(u8, u32)>,
    /// max_data_size of the relaying endpoints (small => chunked relay)
    pub relay_mds: usize,
    pub provider_dropped: bool,
    /// (blobs) afterwards: clone the blob, consume one with into_inner(), then get() and into_inner() on the clone
    pub clone_and_consume: bool,
}

#[derive(Default)]
struct LObs {
    fetched: Vec<String>,
    err: Option<String>,
}

#[derive(serde::Serialize, serde::Deserialize)]
enum LazyShip {
    Blob(LazyBlob),
    Value(Lazy<Vec<u8>>),
}

impl Scenario for LazyScenario {
    fn id(&self) -> String {
        format!("c20l/{self:?}")
    }

    fn deterministic(&self) -> bool {
        // a Lazy<Vec<u8>> above max_data_size is (de)serialized with helper threads
        !(self.kind == LazyKind::Value && self.size + 64 > self.relay_mds.min(8192))
    }

    fn start(&self, env: Env) -> (BoxFuture<'static, ()>, Judge) {
        let obs = shared(LObs::default());
        let p = self.clone();
        let o2 = obs.clone();
        let root = async move {
            env.explore(false);
            let link = LinkOpts { capacity: 2, deliver_cap: 2, eof_on_drop: true };
            let mut txs = Vec::new();
            let mut rxs = Vec::new();
            let mut keep = Vec::new();
            for h in 0..p.hops {
                let cfg_of = |relay: bool| Cfg { max_data_size: if relay { p.relay_mds } else { 8192 }, ..carrier_cfg() };
                // endpoint h sends to endpoint h+1; endpoints 1..hops-1 are relays
                let (na, nb) = (format!("L{h}s"), format!("L{}r", h + 1));
                let r = env.pair_named(&na, 1 + h, cfg_of(h > 0), &nb, 2 + h, cfg_of(h + 1 < p.hops), link, &[]).await;
                let ((ca, mut la), (cb, mut lb)) = match r {
                    Ok(x) => x,
                    Err(e) => {
                        o2.lock().unwrap().err = Some(e);
                        return;
                    }
                };
                let a = env.spawn("bc-a", 1 + h, async move {
                    let r = base::connect::<LazyShip, (), C>(&ca, &mut la).await;
                    (r, ca, la)
                });
                let b = env.spawn("bc-b", 2 + h, async move {
                    let r = base::connect::<(), LazyShip, C>(&cb, &mut lb).await;
                    (r, cb, lb)
                });
                let (ra, ca, la) = a.await.unwrap();
                let (rb, cb, lb) = b.await.unwrap();
                match (ra, rb) {
                    (Ok((tx, _)), Ok((_, rx))) => {
                        txs.push(tx);
                        rxs.push(rx);
                    }
                    _ => {
                        o2.lock().unwrap().err = Some("base connect".into());
                        return;
                    }
                }
                keep.push((ca, la, cb, lb));
            }
            let data = payload(3, p.size);
            let (ship, provider): (LazyShip, Box<dyn std::any::Any + Send>) = match p.kind {
                LazyKind::Blob => {
                    let (b, pr) = LazyBlob::<C>::provided(data.clone());
                    (LazyShip::Blob(b), Box::new(pr))
                }
                LazyKind::Value => {
                    let (l, pr) = Lazy::<Vec<u8>, C>::provided(data.to_vec());
                    (LazyShip::Value(l), Box::new(pr))
                }
            };
            // travel
            let mut cur = ship;
            for h in 0..p.hops as usize {
                let (s, r) = tokio::join!(txs[h].send(cur), rxs[h].recv());
                match (s, r) {
                    (Ok(()), Ok(Some(v))) => cur = v,
                    (s, r) => {
                        o2.lock().unwrap().err = Some(format!("hop {h}: {:?} {:?}", s.map_err(|e| e.to_string()), r.map(|o| o.is_some()).map_err(|e| e.to_string())));
                        return;
                    }
                }
            }
            env.quiesce().await;
            let mut provider = Some(provider);
            if p.provider_dropped {
                drop(provider.take());
                env.quiesce().await;
            }
            env.explore(true);
            if let Some((link_idx, frames)) = p.cut {
                // data flows from endpoint 0 towards the destination: direction 0 of each link
                let (sent0, _, _) = env.dir(link_idx as usize, 0).counts();
                let env2 = env.clone();
                env.spawn("cutter", 0, async move {
                    loop {
                        let (s, _, _) = env2.dir(link_idx as usize, 0).counts();
                        if s >= sent0 + frames {
                            env2.dir(link_idx as usize, 0).cut();
                            env2.dir(link_idx as usize, 1).cut();
                            return;
                        }
                        yield_once().await;
                        if env2.step() > 15_000 {
                            return;
                        }
                    }
                });
            }
            let dest_tag = 1 + p.hops;
            let cur = Arc::new(cur);
            let n = if p.double_fetch { 2 } else { 1 };
            let mut hs = Vec::new();
            for k in 0..n {
                let (c, o3) = (cur.clone(), o2.clone());
                hs.push(env.spawn(&format!("fetch{k}"), dest_tag, async move {
                    let r = match &*c {
                        LazyShip::Blob(b) => match tokio::time::timeout(Duration::from_secs(60), b.get()).await {
                            Ok(Ok(d)) => {
                                let v: Vec<u8> = d.into();
                                format!("ok:{}:{}", v.len(), hex(&v))
                            }
                            Ok(Err(e)) => format!("err:{e:?}").chars().take(50).collect(),
                            Err(_) => "hang".into(),
                        },
                        LazyShip::Value(l) => match tokio::time::timeout(Duration::from_secs(60), l.get()).await {
                            Ok(Ok(d)) => format!("ok:{}:{}", d.len(), hex(&d)),
                            Ok(Err(e)) => format!("err:{e:?}").chars().take(50).collect(),
                            Err(_) => "hang".into(),
                        },
                    };
                    o3.lock().unwrap().fetched.push(r);
                }));
            }
            for h in hs {
                let _ = h.await;
            }
            let mut cur = Some(cur);
            if p.clone_and_consume {
                if let Ok(LazyShip::Blob(b)) = Arc::try_unwrap(cur.take().unwrap()).map_err(|_| ()) {
                    let o3 = o2.clone();
                    let h = env.spawn("clone-and-consume", dest_tag, async move {
                        let b2 = b.clone();
                        let fmt = |r: Result<Vec<u8>, String>| match r {
                            Ok(v) => format!("ok:{}:{}", v.len(), hex(&v)),
                            Err(e) => format!("err:{e}").chars().take(50).collect(),
                        };
                        let r1 = tokio::time::timeout(Duration::from_secs(60), b.into_inner()).await;
                        o3.lock().unwrap().fetched.push(match r1 {
                            Err(_) => "hang".into(),
                            Ok(r) => fmt(r.map(|d| d.into()).map_err(|e| format!("{e:?}"))),
                        });
                        let r2 = tokio::time::timeout(Duration::from_secs(60), b2.get()).await;
                        o3.lock().unwrap().fetched.push(match r2 {
                            Err(_) => "hang".into(),
                            Ok(r) => fmt(r.map(|d| d.into()).map_err(|e| format!("{e:?}"))),
                        });
                        let r3 = tokio::time::timeout(Duration::from_secs(60), b2.into_inner()).await;
                        o3.lock().unwrap().fetched.push(match r3 {
                            Err(_) => "hang".into(),
                            Ok(r) => fmt(r.map(|d| d.into()).map_err(|e| format!("{e:?}"))),
                        });
                    });
                    if h.await.is_err() {
                        o2.lock().unwrap().fetched.push("panic-in-clone-and-consume".into());
                    }
                }
            }
            env.explore(false);
            drop(provider);
            drop(cur);
            drop((txs, rxs, keep));
        };
        let p = self.clone();
        let judge: Judge = Box::new(move |out: &Outcome| {
            let o = obs.lock().unwrap();
            let mut v = Verdict::default();
            v.findings.extend(panic_findings(out, "C20"));
            let expect = format!("ok:{}:{}", p.size, hex(&payload(3, p.size)));
            if let Some(e) = &o.err {
                v.fail("C20", "setup-failed", e.clone());
            } else if out.ending != Ending::Completed {
                v.fail("C20", "lazy-scenario-stuck", format!("{:?}: {:?}", out.ending, o.fetched));
            } else {
                for f in &o.fetched {
                    if f == "panic-in-clone-and-consume" {
                        v.fail("C20", "clone-of-consumed-blob-panics", format!("{p:?}: {:?}", o.fetched.iter().map(|f| f.chars().take(30).collect::<String>()).collect::<Vec<_>>()));
                    } else if f == "hang" {
                        v.fail("C20", "fetch-hangs", format!("{p:?}"));
                    } else if f.starts_with("ok") && *f != expect {
                        v.fail(
                            "C20",
                            format!("fetched-value-differs:{:?}", p.kind),
                            format!("fetched {} but provided {} ({p:?})", f.chars().take(60).collect::<String>(), expect.chars().take(60).collect::<String>()),
                        );
                    } else if f.starts_with("err") && p.cut.is_none() && !p.provider_dropped {
                        v.fail("C20", "fetch-failed-on-healthy-connection", format!("{f} ({p:?})"));
                    } else if f.starts_with("ok") && p.provider_dropped {
                        v.fail("C20", "fetched-after-provider-dropped", f.chars().take(40).collect::<String>());
                    }
                }
                if o.fetched.is_empty() {
                    v.fail("C20", "no-fetch-result", format!("{p:?}"));
                }
            }
            v.outcome = format!("{:?}|{:?}", o.fetched.iter().map(|f| f.chars().take(16).collect::<String>()).collect::<Vec<_>>(), out.ending);
            v.nontrivial = !o.fetched.is_empty();
            v
        });
        (Box::pin(root), judge)
    }
}

fn hs(steps: Vec<Step>, provided: bool) -> Arc<dyn Scenario> {
    Arc::new(HandleScenario { steps, provided })
}

pub fn handle_grid(tier: Tier) -> Vec<Arc<dyn Scenario>> {
    use Step::*;
    let mut out = Vec::new();
    // travel paths over <= 3 connections of the triangle
    let paths: Vec<Vec<(u8, u8)>> = vec![
        vec![],
        vec![(0, 1)],
        vec![(0, 2)],
        vec![(0, 1), (1, 0)],
        vec![(0, 2), (2, 0)],
        vec![(0, 1), (1, 2)],
        vec![(0, 1), (1, 2), (2, 0)],
        vec![(0, 2), (2, 1), (1, 0)],
        vec![(0, 1), (1, 0), (0, 1)],
        vec![(0, 1), (1, 0), (0, 2)],
        vec![(0, 1), (1, 2), (2, 1)],
    ];
    let accessors = [AsRef, AsMut, CastAsRef, IntoInner];
    for path in &paths {
        for acc in accessors {
            for provided in [false, true] {
                // accessor at every stop
                for stop in 0..=path.len() {
                    let mut steps = Vec::new();
                    for (i, (x, y)) in path.iter().enumerate() {
                        if i == stop {
                            steps.push(acc);
                        }
                        steps.push(Move(*x, *y));
                    }
                    if stop == path.len() {
                        steps.push(acc);
                    }
                    steps.push(AsRef);
                    out.push(hs(steps, provided));
                }
            }
        }
        // clones and drop orders
        let mv: Vec<Step> = path.iter().map(|(x, y)| Move(*x, *y)).collect();
        let variants: Vec<Vec<Step>> = vec![
            [vec![CloneHere], mv.clone(), vec![Settle, AsRef, DropClones, Settle, AsRef]].concat(),
            [mv.clone(), vec![CloneHere, IntoInner, Settle]].concat(),
            [vec![CloneHere], mv.clone(), vec![DropProvider, Settle, AsRef]].concat(),
            [mv.clone(), vec![CloneHere, DropProvider, Settle, AsRef, DropClones]].concat(),
            [vec![CloneHere, IntoInner], mv.clone()].concat(),
            // clones made away from home are sent back one after the other, then the original follows
            [mv.clone(), vec![MoveClone(1, 0), MoveClone(1, 0), Move(1, 0), AsRef, DropClones, Settle]].concat(),
            [mv.clone(), vec![MoveClone(2, 0), Move(2, 0), AsRef, Move(0, 2), Move(2, 0), AsRef]].concat(),
        ];
        for (k, s) in variants.into_iter().enumerate() {
            out.push(hs(s.clone(), k >= 2));
            if tier == Tier::Thorough {
                out.push(hs(s, k < 2));
            }
        }
    }
    out
}

fn lz(kind: LazyKind, size: usize, hops: u8, double_fetch: bool, cut: Option<(u8, u32)>, relay_mds: usize, provider_dropped: bool) -> Arc<dyn Scenario> {
    Arc::new(LazyScenario { kind, size, hops, double_fetch, cut, relay_mds, provider_dropped, clone_and_consume: false })
}

pub fn lazy_grid(tier: Tier) -> Vec<Arc<dyn Scenario>> {
    let mut out = Vec::new();
    // chunk 32, receive buffer 128 (carrier_cfg)
    let sizes = [0usize, 1, 32, 129, 384, 1000];
    for kind in [LazyKind::Blob, LazyKind::Value] {
        for &size in &sizes {
            for hops in 1..=3u8 {
                for double in [false, true] {
                    out.push(lz(kind, size, hops, double, None, 8192, false));
                    // a clone of the received blob survives the consumption of the other one
                    if kind == LazyKind::Blob && hops <= 2 {
                        out.push(Arc::new(LazyScenario { kind, size, hops, double_fetch: double, cut: None, relay_mds: 8192, provider_dropped: false, clone_and_consume: true }));
                    }
                }
                // chunked relaying (relays with a small max_data_size)
                if hops >= 2 && size > 64 {
                    out.push(lz(kind, size, hops, false, None, 64, false));
                }
            }
            out.push(lz(kind, size, 1, false, None, 8192, true));
        }
    }
    // connection cut at every frame of a fetch, for each link of a 3-connection chain
    let frames = if tier == Tier::Quick { 24 } else { 60 };
    for link in 0..3u8 {
        for k in 0..frames {
            out.push(lz(LazyKind::Blob, 1000, 3, false, Some((link, k)), 64, false));
            if tier == Tier::Thorough || k % 3 == 0 {
                out.push(lz(LazyKind::Blob, 1000, 3, false, Some((link, k)), 8192, false));
                out.push(lz(LazyKind::Blob, 384, 2, k % 2 == 0, Some((link.min(1), k)), 64, false));
                out.push(lz(LazyKind::Value, 129, 2, false, Some((link.min(1), k)), 8192, false));
            }
        }
    }
    out
}

pub fn core(_tier: Tier) -> Vec<Arc<dyn Scenario>> {
    use Step::*;
    vec![
        hs(vec![CloneHere, Move(0, 1), Move(1, 0), AsRef, DropClones, IntoInner], false),
        hs(vec![Move(0, 1), CloneHere, Move(1, 2), Move(2, 0), AsRef, DropProvider, Settle], true),
        lz(LazyKind::Blob, 129, 2, true, None, 8192, false),
        lz(LazyKind::Value, 32, 1, true, None, 8192, false),
    ]
}

pub fn all_scenarios(tier: Tier) -> Vec<Arc<dyn Scenario>> {
    let mut v = handle_grid(tier);
    v.extend(lazy_grid(tier));
    v.extend(core(tier));
    v
}

pub fn run(tier: Tier, seed: u64) -> i32 {
    let mut rep = Report::new("C20", tier, seed);
    let known = known_sigs("C20");
    let q = tier == Tier::Quick;
    let p0 = Params { max_dev: 0, seeds: vec![seed], time_limit: Duration::from_secs(if q { 20 } else { 600 }), ..Default::default() };
    rep.add("handles: travel paths over a 3-endpoint triangle x accessor at every stop x clone/provider drop orders", explore("C20", handle_grid(tier), p0.clone(), &known));
    rep.add("lazy values and blobs: sizes x hops x double fetch x chunked relaying x connection cut at every frame", explore("C20", lazy_grid(tier), p0, &known));
    let p = Params { max_dev: 2, seeds: vec![seed], time_limit: Duration::from_secs(if q { 15 } else { 600 }), ..Default::default() };
    rep.add("core scenarios under schedule exploration", explore("C20", core(tier), p, &known));
    rep.rule = "a case = (handle: path over <= 3 connections of a triangle incl. returning over the other connection, accessor as_ref / as_mut / cast+as_ref / into_inner at every stop, clones and provider dropped in different orders; lazy: Lazy<Vec<u8>> or LazyBlob of size 0/1/chunk/buffer+1/3*buffer/1000 forwarded over 1..3 connections, fetched once or twice concurrently, relays with small max_data_size, connection cut after k frames of the fetch, provider dropped); distinct = distinct accessor / fetch results; non-trivial = the handle moved / a fetch result was obtained".into();
    rep.assumptions = vec!["the stored value carries its identity and a drop counter".into(), "Lazy<Vec<u8>> values above max_data_size use helper threads (free-running schedule, labelled non-deterministic)".into()];
    rep.finish()
}
