//! C09 Wire format of protocol version 3 is stable and version-negotiated.
//!
//! One real endpoint talks to a scripted peer that uses only the reference codec written from
//! /verif/spec/chmux_v3.md. Emit direction: every frame the endpoint emits must be byte-identical
//! to the reference encoding of the message it has to send. Accept direction: reference-encoded
//! messages (incl. the id-less version-2 variants) must have the API effect the spec assigns.

use bytes::Bytes;
use futures::future::BoxFuture;
use remoc::chmux::{self, Cfg, ConnectError, PortReq, Received, SendError};
use std::{sync::Arc, time::Duration};
use tokio::io::{AsyncReadExt, AsyncWriteExt};

use super::c08::RawPeer;
use crate::{
    explore::{Params, explore},
    net::{LinkOpts, WireKind},
    report::{Report, Tier, known_sigs},
    util::{hex, panic_findings, payload, shared},
    wire::{DirDecoder, HelloCfg, Item, Msg},
    world::{Ending, Env, Judge, Outcome, Scenario, Verdict, cfg},
};

#[derive(Debug, Clone, PartialEq, Eq)]
pub enum Case {
    /// Reset + Hello for a cfg grid point: (timeout ms or 0, chunk, buffer, connect queue)
    Hello(u64, u32, u32, u16),
    /// connect_ext(wait, custom id)
    OpenPort { wait: bool, custom_id: Option<u32> },
    /// peer opens a port (peer port number boundary value); local accepts / rejects
    Answer { peer_port: u32, id: Option<u32>, accept: bool, no_ports: bool },
    /// data messages: plain sends of the given sizes, then a chunked send
    Data(Vec<usize>),
    /// Sender::connect with k ports
    PortData { k: usize, wait: bool },
    /// credit return, close, drops, finishes, goodbye
    Lifecycle,
    /// ping after half the peer's timeout of silence
    Ping,
    /// accept direction: data flag combinations
    AcceptData,
    /// accept direction: PortData with / without ids, SendFinish, ReceiveClose, ReceiveFinish, credits
    AcceptPortMsgs { with_ids: bool },
    /// accept direction: ClientFinish / ListenerFinish / Goodbye
    AcceptFinishes,
}

pub struct WireScenario {
    pub case: Case,
    /// version announced by the scripted peer
    pub peer_version: u8,
    /// base for the local endpoint's port numbers (boundary values)
    pub port_base: u32,
}

#[derive(Default)]
struct Obs {
    mismatches: Vec<String>,
    checked: usize,
    err: Option<String>,
}

const PEER_CS: u32 = 8;
const PEER_RB: u32 = 64;

struct Conv {
    peer: RawPeer,
    obs: crate::util::Shared<Obs>,
}

impl Conv {
    async fn next_frame(&mut self) -> Option<Vec<u8>> {
        use futures::StreamExt;
        let e = self.peer.end.as_mut()?;
        match tokio::time::timeout(Duration::from_secs(30), e.stream.next()).await {
            Ok(Some(Ok(f))) => Some(f.to_vec()),
            _ => None,
        }
    }

    /// The next frame emitted by the endpoint must be exactly `expected`.
    async fn expect_bytes(&mut self, what: &str, expected: Vec<u8>) {
        let got = self.next_frame().await;
        let mut o = self.obs.lock().unwrap();
        o.checked += 1;
        match got {
            Some(g) if g == expected => {}
            Some(g) => o.mismatches.push(format!("{what}: emitted {} expected {}", hexf(&g), hexf(&expected))),
            None => o.mismatches.push(format!("{what}: nothing emitted, expected {}", hexf(&expected))),
        }
    }

    async fn expect_msg(&mut self, what: &str, m: Msg) {
        self.expect_bytes(what, m.encode()).await;
    }

    fn check(&mut self, what: &str, ok: bool, detail: String) {
        let mut o = self.obs.lock().unwrap();
        o.checked += 1;
        if !ok {
            o.mismatches.push(format!("{what}: {detail}"));
        }
    }

    async fn send(&mut self, m: Msg) {
        self.peer.send(m.encode()).await;
    }
}

fn hexf(b: &[u8]) -> String {
    b.iter().map(|x| format!("{x:02x}")).collect()
}

impl Scenario for WireScenario {
    fn id(&self) -> String {
        format!("c09/{:?}/v{}/base{:#x}", self.case, self.peer_version, self.port_base)
    }

    fn watchdog_secs(&self) -> u64 {
        100_000
    }

    fn start(&self, env: Env) -> (BoxFuture<'static, ()>, Judge) {
        let obs = shared(Obs::default());
        let (case, v, base) = (self.case.clone(), self.peer_version, self.port_base);
        let o2 = obs.clone();
        let root = async move {
            env.explore(false);
            env.ctl.set_port_base(1, base.wrapping_sub(1));
            env.ctl.set_port_base(0, base);
            let with_ids = v >= 3;
            let (timeout_ms, cs, rb, cq) = match &case {
                Case::Hello(t, c, r, q) => (*t, *c, *r, *q),
                _ => (0, 8, 16, 4),
            };
            let local_cfg = Cfg {
                connection_timeout: if timeout_ms == 0 { None } else { Some(Duration::from_millis(timeout_ms)) },
                connect_queue: cq,
                max_ports: 32,
                max_received_ports: 64,
                ..cfg(cs, rb, 64, 4, 4)
            };
            let link = LinkOpts { capacity: 64, deliver_cap: 64, eof_on_drop: true };
            let (ea, eb) = env.link(link, &[]);
            let ready = env.endpoint("A", 1, local_cfg, ea);
            let mut c = Conv { peer: RawPeer { end: Some(eb), dec: DirDecoder::default() }, obs: o2.clone() };
            let peer_timeout = if case == Case::Ping { 10_000 } else { 0 };
            c.send(Msg::Reset).await;
            c.peer
                .send(Msg::Hello { version: v, cfg: HelloCfg { timeout_ms: peer_timeout, chunk_size: PEER_CS, receive_buffer: PEER_RB, connect_queue: 3 } }.encode())
                .await;
            // Emit: Reset, Hello
            c.expect_msg("handshake Reset", Msg::Reset).await;
            c.expect_msg(
                "handshake Hello",
                Msg::Hello { version: 3, cfg: HelloCfg { timeout_ms, chunk_size: cs, receive_buffer: rb, connect_queue: cq } },
            )
            .await;
            let Ok(Ok((client, mut listener))) = ready.await else {
                o2.lock().unwrap().err = Some("handshake failed".into());
                return;
            };
            let opt_id = |id: u32| if with_ids { Some(id) } else { None };
            // helper: open a port from the local side; returns (local port number, tx, rx)
            async fn open_local(env: &Env, c: &mut Conv, client: &chmux::Client, pp: u32, with_ids: bool) -> Option<(u32, chmux::Sender, chmux::Receiver)> {
                let c2 = client.clone();
                let h = env.spawn("connect", 1, async move { c2.connect().await });
                let f = c.next_frame().await?;
                let Ok(Msg::OpenPort { client_port, wait, id }) = Msg::decode(&f) else {
                    c.check("open_local", false, format!("expected OpenPort, got {}", hexf(&f)));
                    return None;
                };
                let expected = Msg::OpenPort { client_port, wait: true, id: if with_ids { Some(client_port) } else { None } };
                c.check("OpenPort(connect)", f == expected.encode() && wait && (id.is_some() == with_ids), format!("emitted {} expected {}", hexf(&f), hexf(&expected.encode())));
                c.send(Msg::PortOpened { client_port, server_port: pp }).await;
                let (tx, rx) = h.await.ok()?.ok()?;
                c.check("PortOpened accepted", tx.remote_port() == pp && tx.local_port() == client_port, format!("sender ports {}->{} expected {}->{}", tx.local_port(), tx.remote_port(), client_port, pp));
                Some((client_port, tx, rx))
            }
            match case {
                Case::Hello(..) => {}
                Case::OpenPort { wait, custom_id } => {
                    let port = client.port_allocator().try_allocate().unwrap();
                    let num = *port;
                    c.check("port number from boundary base", num == base, format!("allocated {num:#x}, base {base:#x}"));
                    let req = match custom_id {
                        Some(id) => PortReq::new(port).with_id(id),
                        None => PortReq::new(port),
                    };
                    let connect = client.connect_ext(Some(req), wait).await;
                    c.expect_msg("OpenPort", Msg::OpenPort { client_port: num, wait, id: opt_id(custom_id.unwrap_or(num)) }).await;
                    // Rejected with no_ports flag -> classification
                    c.send(Msg::Rejected { client_port: num, no_ports: wait }).await;
                    if let Ok(connect) = connect {
                        let r = connect.await;
                        let ok = match (&r, wait) {
                            (Err(ConnectError::RemotePortsExhausted), true) => true,
                            (Err(ConnectError::Rejected), false) => true,
                            _ => false,
                        };
                        c.check("Rejected flag NO_PORTS", ok, format!("no_ports={wait} gave {:?}", r.as_ref().map(|_| ())));
                    }
                }
                Case::Answer { peer_port, id, accept, no_ports } => {
                    c.send(Msg::OpenPort { client_port: peer_port, wait: !no_ports, id }).await;
                    match listener.inspect().await {
                        Ok(Some(req)) => {
                            c.check("OpenPort accepted: remote port", req.remote_port() == peer_port, format!("{} vs {}", req.remote_port(), peer_port));
                            c.check("OpenPort accepted: id (absent id = port number)", req.id() == id.unwrap_or(peer_port), format!("{} vs {:?}", req.id(), id));
                            c.check("OpenPort accepted: wait flag", req.is_wait() == !no_ports, format!("{}", req.is_wait()));
                            if accept {
                                let h = env.spawn("accept", 1, async move { req.accept().await });
                                let f = c.next_frame().await.unwrap_or_default();
                                match Msg::decode(&f) {
                                    Ok(Msg::PortOpened { client_port, server_port }) => {
                                        c.check("PortOpened bytes", f == Msg::PortOpened { client_port: peer_port, server_port }.encode() && client_port == peer_port, hexf(&f));
                                        if let Ok(Ok((tx, _rx))) = h.await {
                                            c.check("PortOpened server_port = local port", tx.local_port() == server_port && tx.remote_port() == peer_port, format!("{} {}", tx.local_port(), server_port));
                                        }
                                    }
                                    _ => c.check("PortOpened", false, format!("got {}", hexf(&f))),
                                }
                            } else {
                                req.reject(no_ports).await;
                                c.expect_msg("Rejected", Msg::Rejected { client_port: peer_port, no_ports }).await;
                            }
                        }
                        other => c.check("OpenPort accepted", false, format!("inspect gave {:?}", other.map(|o| o.is_some()))),
                    }
                }
                Case::Data(sizes) => {
                    let pp = 0xFFFF_FFF0u32;
                    if let Some((_lp, mut tx, _rx)) = open_local(&env, &mut c, &client, pp, with_ids).await {
                        for (i, n) in sizes.iter().enumerate() {
                            let data = payload(i, *n);
                            let h = {
                                let d = data.clone();
                                env.spawn("send", 1, async move {
                                    let r = tx.send(d).await;
                                    (tx, r)
                                })
                            };
                            // expected chunking: peer chunk size, credit never binding (PEER_RB >= sum within window)
                            let mut off = 0;
                            let mut first = true;
                            loop {
                                let len = (*n - off).min(PEER_CS as usize);
                                let last = off + len == *n;
                                c.expect_msg(&format!("Data header size {n} off {off}"), Msg::Data { port: pp, first, last }).await;
                                c.expect_bytes(&format!("Data payload size {n} off {off}"), data[off..off + len].to_vec()).await;
                                // grant the credit back so that it never binds
                                c.send(Msg::PortCredits { port: _lp, credits: (len as u32).max(1) }).await;
                                off += len;
                                first = false;
                                if last {
                                    break;
                                }
                            }
                            let (t, r) = h.await.unwrap();
                            tx = t;
                            c.check("send result", r.is_ok(), format!("{r:?}"));
                        }
                        // chunked: [3] [0] [PEER_CS+1] finish -> flags F, M, M M, L(empty)
                        let h = env.spawn("send-chunks", 1, async move {
                            let cs = tx.send_chunks();
                            let cs = cs.send(Bytes::from_static(b"abc")).await?;
                            let cs = cs.send(Bytes::new()).await?;
                            let cs = cs.send(payload(9, PEER_CS as usize + 1)).await?;
                            cs.finish().await?;
                            let cs = tx.send_chunks();
                            cs.send_final(Bytes::from_static(b"z")).await?;
                            Ok::<_, SendError>(tx)
                        });
                        let big = payload(9, PEER_CS as usize + 1);
                        let exp: Vec<(bool, bool, Vec<u8>)> = vec![
                            (true, false, b"abc".to_vec()),
                            (false, false, vec![]),
                            (false, false, big[..PEER_CS as usize].to_vec()),
                            (false, false, big[PEER_CS as usize..].to_vec()),
                            (false, true, vec![]),
                            (true, true, b"z".to_vec()),
                        ];
                        for (first, last, p) in exp {
                            c.expect_msg("chunked Data header", Msg::Data { port: pp, first, last }).await;
                            c.expect_bytes("chunked Data payload", p.clone()).await;
                            c.send(Msg::PortCredits { port: _lp, credits: (p.len() as u32).max(1) }).await;
                        }
                        let _ = h.await;
                    }
                }
                Case::PortData { k, wait } => {
                    let pp = 0x100;
                    if let Some((lp, mut tx, _rx)) = open_local(&env, &mut c, &client, pp, with_ids).await {
                        let mut reqs = Vec::new();
                        let mut nums = Vec::new();
                        for i in 0..k {
                            let p = client.port_allocator().try_allocate().unwrap();
                            nums.push((*p, 7000 + i as u32));
                            reqs.push(PortReq::new(p).with_id(7000 + i as u32));
                        }
                        let h = env.spawn("connect-ports", 1, async move {
                            let r = tx.connect(reqs, wait).await;
                            (tx, r.map(|c| c.len()))
                        });
                        let per = (PEER_CS / 4) as usize;
                        let mut off = 0;
                        while off < k {
                            let n = (k - off).min(per);
                            let ports: Vec<u32> = nums[off..off + n].iter().map(|x| x.0).collect();
                            let ids: Vec<u32> = nums[off..off + n].iter().map(|x| x.1).collect();
                            c.expect_msg(
                                &format!("PortData {off}..{}", off + n),
                                Msg::PortData { port: pp, first: off == 0, last: off + n == k, wait, ports, ids: if with_ids { Some(ids) } else { None } },
                            )
                            .await;
                            c.send(Msg::PortCredits { port: lp, credits: 4 * n as u32 }).await;
                            off += n;
                        }
                        let (_tx, r) = h.await.unwrap();
                        c.check("connect result", matches!(r, Ok(n) if n == k), format!("{r:?}"));
                    }
                }
                Case::Lifecycle => {
                    let pp = 0x1_0000;
                    if let Some((lp, tx, mut rx)) = open_local(&env, &mut c, &client, pp, with_ids).await {
                        // local rb 16 -> threshold 8: 8 consumed bytes are returned in one PortCredits
                        c.send(Msg::Data { port: lp, first: true, last: true }).await;
                        c.peer.send(vec![1; 8]).await;
                        let got = rx.recv().await;
                        c.check("Data FL delivered", matches!(&got, Ok(Some(d)) if bytes::Buf::remaining(d) == 8), format!("{:?}", got.map(|o| o.map(|d| bytes::Buf::remaining(&d)))));
                        c.expect_msg("PortCredits", Msg::PortCredits { port: pp, credits: 8 }).await;
                        rx.close().await;
                        c.expect_msg("ReceiveClose", Msg::ReceiveClose { port: pp }).await;
                        drop(tx);
                        c.expect_msg("SendFinish", Msg::SendFinish { port: pp }).await;
                        drop(rx);
                        c.expect_msg("ReceiveFinish", Msg::ReceiveFinish { port: pp }).await;
                        c.send(Msg::SendFinish { port: lp }).await;
                        c.send(Msg::ReceiveFinish { port: lp }).await;
                    }
                    drop(listener);
                    c.expect_msg("ListenerFinish", Msg::ListenerFinish).await;
                    drop(client);
                    c.expect_msg("ClientFinish", Msg::ClientFinish).await;
                    c.send(Msg::ClientFinish).await;
                    c.send(Msg::ListenerFinish).await;
                    c.expect_msg("Goodbye", Msg::Goodbye).await;
                    c.send(Msg::Goodbye).await;
                    env.quiesce().await;
                    let r = env.mux_result("A");
                    c.check("orderly end after Goodbye exchange", matches!(r, Some((_, Ok(())))), format!("{r:?}"));
                    return;
                }
                Case::Ping => {
                    let t0 = env.now_ms();
                    let f = c.next_frame().await;
                    let dt = env.now_ms() - t0;
                    c.check("Ping bytes", f == Some(Msg::Ping.encode()), format!("{:?}", f.map(|f| hexf(&f))));
                    c.check("Ping after half the peer's timeout", (4000..=6000).contains(&dt), format!("after {dt} ms (peer timeout 10000 ms)"));
                }
                Case::AcceptData => {
                    let pp = 0xFF;
                    if let Some((lp, _tx, mut rx)) = open_local(&env, &mut c, &client, pp, with_ids).await {
                        // F,M,L reassembled; F then F+L: partial discarded; M/L without F ignored; empty FL
                        let seqs: Vec<(bool, bool, &[u8])> = vec![
                            (true, false, b"ab"),
                            (false, false, b"cd"),
                            (false, true, b"e"),
                            (true, false, b"XX"),
                            (true, true, b"fg"),
                            (true, true, b""),
                        ];
                        for (first, last, p) in seqs {
                            c.send(Msg::Data { port: lp, first, last }).await;
                            c.peer.send(p.to_vec()).await;
                        }
                        let mut got = Vec::new();
                        for _ in 0..3 {
                            match tokio::time::timeout(Duration::from_secs(5), rx.recv()).await {
                                Ok(Ok(Some(d))) => got.push(Vec::<u8>::from(d)),
                                other => {
                                    got.push(format!("{:?}", other.map(|r| r.map(|o| o.is_some()))).into_bytes());
                                }
                            }
                        }
                        let exp: Vec<Vec<u8>> = vec![b"abcde".to_vec(), b"fg".to_vec(), vec![]];
                        c.check("Data FIRST/LAST semantics", got == exp, format!("received {:?}", got.iter().map(|g| hex(g)).collect::<Vec<_>>()));
                    }
                }
                Case::AcceptPortMsgs { with_ids: ids_flag } => {
                    let pp = 0;
                    if let Some((lp, mut tx, mut rx)) = open_local(&env, &mut c, &client, pp, with_ids).await {
                        let ports = vec![0x10u32, u32::MAX];
                        c.send(Msg::PortData { port: lp, first: true, last: false, wait: true, ports: ports.clone(), ids: if ids_flag { Some(vec![5, 6]) } else { None } }).await;
                        c.send(Msg::PortData { port: lp, first: false, last: true, wait: true, ports: vec![0x11], ids: if ids_flag { Some(vec![0]) } else { None } }).await;
                        match tokio::time::timeout(Duration::from_secs(5), rx.recv_any()).await {
                            Ok(Ok(Some(Received::Requests(reqs)))) => {
                                let got: Vec<(u32, u32, bool)> = reqs.iter().map(|r| (r.remote_port(), r.id(), r.is_wait())).collect();
                                let exp: Vec<(u32, u32, bool)> =
                                    if ids_flag { vec![(0x10, 5, true), (u32::MAX, 6, true), (0x11, 0, true)] } else { vec![(0x10, 0x10, true), (u32::MAX, u32::MAX, true), (0x11, 0x11, true)] };
                                c.check("PortData ports/ids/wait", got == exp, format!("{got:?} expected {exp:?}"));
                                drop(reqs);
                            }
                            other => c.check("PortData accepted", false, format!("{:?}", other.map(|r| r.map(|o| o.is_some())))),
                        }
                        // credits: exhaust PEER_RB, then grant exactly 5
                        let h = env.spawn("send-big", 1, async move {
                            let r = tx.send(payload(1, PEER_RB as usize + 5)).await;
                            (tx, r)
                        });
                        let mut total = 0usize;
                        let mut dec = DirDecoder::default();
                        loop {
                            match tokio::time::timeout(Duration::from_secs(3), c.next_frame()).await {
                                Ok(Some(f)) => {
                                    if let Item::Payload(n) = dec.feed(&f) {
                                        total += n;
                                    }
                                }
                                _ => break,
                            }
                        }
                        c.check("initial credit = peer receive buffer", total == PEER_RB as usize, format!("{total} bytes sent before any credit (advertised {PEER_RB})"));
                        c.send(Msg::PortCredits { port: lp, credits: 5 }).await;
                        let mut more = 0usize;
                        loop {
                            match tokio::time::timeout(Duration::from_secs(3), c.next_frame()).await {
                                Ok(Some(f)) => {
                                    if let Item::Payload(n) = dec.feed(&f) {
                                        more += n;
                                    }
                                }
                                _ => break,
                            }
                        }
                        c.check("PortCredits grants exactly that many bytes", more == 5, format!("{more} further bytes after granting 5"));
                        let (mut tx, r) = h.await.unwrap();
                        c.check("send completes", r.is_ok(), format!("{r:?}"));
                        // ReceiveClose -> graceful close; ReceiveFinish (without a preceding close) -> dropped
                        if ids_flag {
                            c.send(Msg::ReceiveClose { port: lp }).await;
                            env.quiesce().await;
                            let r = tx.send(payload(2, 1)).await;
                            c.check("ReceiveClose -> Closed{gracefully:true}", matches!(r, Err(SendError::Closed { gracefully: true })), format!("{r:?}"));
                            c.send(Msg::ReceiveFinish { port: lp }).await;
                            env.quiesce().await;
                            let r = tx.send(payload(2, 1)).await;
                            c.check("ReceiveFinish after ReceiveClose -> still closed", matches!(r, Err(SendError::Closed { .. })), format!("{r:?}"));
                        } else {
                            c.send(Msg::ReceiveFinish { port: lp }).await;
                            env.quiesce().await;
                            let r = tx.send(payload(2, 1)).await;
                            c.check("ReceiveFinish -> Closed{gracefully:false}", matches!(r, Err(SendError::Closed { gracefully: false })), format!("{r:?}"));
                        }
                        c.send(Msg::SendFinish { port: lp }).await;
                        let r = tokio::time::timeout(Duration::from_secs(5), rx.recv()).await;
                        c.check("SendFinish -> end of stream", matches!(r, Ok(Ok(None))), format!("{:?}", r.map(|r| r.map(|o| o.is_some()))));
                    }
                }
                Case::AcceptFinishes => {
                    c.send(Msg::Ping).await;
                    c.send(Msg::ListenerFinish).await;
                    env.quiesce().await;
                    let r = tokio::time::timeout(Duration::from_secs(5), client.connect()).await;
                    c.check("ListenerFinish -> connect refused", matches!(r, Ok(Err(ConnectError::Rejected))), format!("{:?}", r.map(|r| r.map(|_| ()))));
                    c.send(Msg::ClientFinish).await;
                    let r = tokio::time::timeout(Duration::from_secs(5), listener.accept()).await;
                    c.check("ClientFinish -> accept returns None", matches!(r, Ok(Ok(None))), format!("{:?}", r.map(|r| r.map(|o| o.is_some()))));
                    c.send(Msg::Goodbye).await;
                    env.quiesce().await;
                    let r = env.mux_result("A");
                    c.check("Goodbye -> orderly end", matches!(r, Some((_, Ok(())))), format!("{r:?}"));
                }
            }
            drop(c);
        };
        let judge: Judge = Box::new(move |out: &Outcome| {
            let o = obs.lock().unwrap();
            let mut v = Verdict::default();
            v.findings.extend(panic_findings(out, "C09"));
            if let Some(e) = &o.err {
                v.fail("C09", "setup-failed", e.clone());
            }
            if out.ending != Ending::Completed {
                v.fail("C09", "conversation-stuck", format!("{:?}", out.ending));
            }
            // every frame the endpoint emitted must be well-formed per the reference decoder
            let mut dec = DirDecoder::default();
            for ev in out.wire.iter().filter(|e| e.dir == 0 && e.kind == WireKind::Sent) {
                if let Item::Malformed(m) = dec.feed(&ev.frame) {
                    v.fail("C09", "malformed-frame-emitted", format!("{} ({m})", hexf(&ev.frame)));
                }
            }
            for m in &o.mismatches {
                let what = m.split(':').next().unwrap_or("");
                v.fail("C09", format!("wire-mismatch:{what}"), m.clone());
            }
            v.outcome = format!("{}|{:?}", o.checked, o.mismatches);
            v.nontrivial = o.checked > 2;
            v
        });
        (Box::pin(root), judge)
    }
}

#[derive(Debug, Clone, PartialEq, Eq)]
pub enum FrameCase {
    /// two real endpoints over Connect::io with the given chunk size and duplex buffer; a value with
    /// `halves` channel halves is sent after the handshake
    Pair { chunk: u32, pipe: usize, halves: usize },
    /// one real endpoint; the raw byte stream it writes must be length-prefixed reference frames
    Prefix { pipe: usize },
    /// a frame longer than the cap is refused, not buffered
    Oversize,
}

pub struct FramingScenario {
    pub case: FrameCase,
}

#[derive(Default)]
struct FObs {
    problems: Vec<String>,
    done: bool,
    checked: usize,
}

impl Scenario for FramingScenario {
    fn id(&self) -> String {
        format!("c09-framing/{:?}", self.case)
    }

    fn start(&self, env: Env) -> (BoxFuture<'static, ()>, Judge) {
        let obs = shared(FObs::default());
        let case = self.case.clone();
        let o2 = obs.clone();
        let root = async move {
            env.explore(false);
            use remoc::rch::{base, mpsc};
            type Val = Vec<mpsc::Sender<u8>>;
            match case {
                FrameCase::Pair { chunk, pipe, halves } => {
                    let (a_io, b_io) = tokio::io::duplex(pipe);
                    let (a_r, a_w) = tokio::io::split(a_io);
                    let (b_r, b_w) = tokio::io::split(b_io);
                    let mk = || Cfg { max_ports: 64, max_received_ports: 64, ..cfg(chunk, 4 * chunk.max(16), 1024, 4, 4) };
                    let (ca, cb) = (mk(), mk());
                    let (oa, ob) = (o2.clone(), o2.clone());
                    let a = env.spawn("A.io", 1, async move {
                        match remoc::Connect::io::<_, _, Val, Val, remoc::codec::Default>(ca, a_r, a_w).await {
                            Ok((conn, mut tx, _rx)) => {
                                let h = remoc::exec::spawn(conn);
                                let mut v = Vec::new();
                                let mut keep = Vec::new();
                                for _ in 0..halves {
                                    let (t, r) = mpsc::channel::<u8, remoc::codec::Default>(1);
                                    v.push(t);
                                    keep.push(r);
                                }
                                if let Err(e) = tx.send(v).await {
                                    oa.lock().unwrap().problems.push(format!("A send: {e}"));
                                }
                                // every half must connect: receive one item on each
                                for mut r in keep {
                                    match tokio::time::timeout(Duration::from_secs(20), r.recv()).await {
                                        Ok(Ok(Some(_))) => oa.lock().unwrap().checked += 1,
                                        other => oa.lock().unwrap().problems.push(format!("half did not connect: {:?}", other.map(|r| r.map(|o| o.is_some()).map_err(|e| e.to_string())))),
                                    }
                                }
                                drop(tx);
                                let _ = tokio::time::timeout(Duration::from_secs(5), h).await;
                            }
                            Err(e) => oa.lock().unwrap().problems.push(format!("A Connect::io with chunk_size {chunk}: {e}")),
                        }
                    });
                    let b = env.spawn("B.io", 2, async move {
                        match remoc::Connect::io::<_, _, Val, Val, remoc::codec::Default>(cb, b_r, b_w).await {
                            Ok((conn, _tx, mut rx)) => {
                                let h = remoc::exec::spawn(conn);
                                match tokio::time::timeout(Duration::from_secs(20), rx.recv()).await {
                                    Ok(Ok(Some(v))) => {
                                        if v.len() != halves {
                                            ob.lock().unwrap().problems.push(format!("B got {} halves of {halves}", v.len()));
                                        }
                                        for t in v {
                                            let _ = t.send(1).await;
                                        }
                                    }
                                    other => ob.lock().unwrap().problems.push(format!("B recv with chunk_size {chunk}, {halves} halves: {:?}", other.map(|r| r.map(|o| o.is_some()).map_err(|e| e.to_string())))),
                                }
                                let _ = tokio::time::timeout(Duration::from_secs(30), h).await;
                            }
                            Err(e) => ob.lock().unwrap().problems.push(format!("B Connect::io with chunk_size {chunk}: {e}")),
                        }
                    });
                    let _ = a.await;
                    let _ = b.await;
                }
                FrameCase::Prefix { pipe } => {
                    let (a_io, mut p_io) = tokio::io::duplex(pipe);
                    let (a_r, a_w) = tokio::io::split(a_io);
                    let ca = cfg(16, 64, 1024, 4, 4);
                    let a = env.spawn("A.io", 1, async move {
                        let r = remoc::Connect::io::<_, _, u8, u8, remoc::codec::Default>(ca, a_r, a_w).await;
                        if let Ok((conn, mut tx, _rx)) = r {
                            let h = remoc::exec::spawn(conn);
                            let _ = tx.send(7).await;
                            let _ = tokio::time::timeout(Duration::from_secs(10), h).await;
                        }
                    });
                    // raw peer: write Reset, Hello with length prefixes; read what A writes
                    let mut out = Vec::new();
                    for m in [Msg::Reset, Msg::Hello { version: 3, cfg: HelloCfg { timeout_ms: 0, chunk_size: 16, receive_buffer: 64, connect_queue: 4 } }] {
                        let f = m.encode();
                        out.extend_from_slice(&(f.len() as u32).to_le_bytes());
                        out.extend_from_slice(&f);
                    }
                    let _ = p_io.write_all(&out).await;
                    // read for a while
                    let mut buf = Vec::new();
                    let mut tmp = [0u8; 64];
                    loop {
                        match tokio::time::timeout(Duration::from_secs(2), p_io.read(&mut tmp)).await {
                            Ok(Ok(n)) if n > 0 => buf.extend_from_slice(&tmp[..n]),
                            _ => break,
                        }
                    }
                    // parse: [len u32 LE][frame]*
                    let mut pos = 0;
                    let mut dec = DirDecoder::default();
                    let mut names = Vec::new();
                    while pos + 4 <= buf.len() {
                        let len = u32::from_le_bytes([buf[pos], buf[pos + 1], buf[pos + 2], buf[pos + 3]]) as usize;
                        if pos + 4 + len > buf.len() {
                            o2.lock().unwrap().problems.push(format!("length prefix {len} at offset {pos} exceeds the {} bytes written", buf.len()));
                            break;
                        }
                        match dec.feed(&buf[pos + 4..pos + 4 + len]) {
                            Item::Msg(m) => names.push(m.name().to_string()),
                            Item::Payload(_) => names.push("payload".into()),
                            Item::Malformed(e) => o2.lock().unwrap().problems.push(format!("frame at offset {pos} malformed: {e}")),
                        }
                        pos += 4 + len;
                        o2.lock().unwrap().checked += 1;
                    }
                    if names.len() < 3 || names[0] != "Reset" || names[1] != "Hello" || names[2] != "OpenPort" {
                        o2.lock().unwrap().problems.push(format!("byte stream does not start with length-prefixed Reset, Hello, OpenPort: {names:?}"));
                    }
                    drop(p_io);
                    let _ = a.await;
                }
                FrameCase::Oversize => {
                    let (a_io, mut p_io) = tokio::io::duplex(1 << 16);
                    let (a_r, a_w) = tokio::io::split(a_io);
                    let ca = cfg(16, 64, 1024, 4, 4);
                    let oa = o2.clone();
                    let a = env.spawn("A.io", 1, async move {
                        let r = remoc::Connect::io::<_, _, u8, u8, remoc::codec::Default>(ca, a_r, a_w).await;
                        match r {
                            Err(_) => oa.lock().unwrap().checked += 1,
                            Ok(_) => oa.lock().unwrap().problems.push("oversized frame accepted".into()),
                        }
                    });
                    // announce a 1 GiB frame, send only a few bytes of it
                    let mut out = Vec::new();
                    out.extend_from_slice(&(1u32 << 30).to_le_bytes());
                    out.extend_from_slice(&[1u8; 64]);
                    let _ = p_io.write_all(&out).await;
                    if tokio::time::timeout(Duration::from_secs(20), a).await.is_err() {
                        o2.lock().unwrap().problems.push("endpoint keeps waiting for (buffering) an over-long frame instead of refusing it".into());
                    }
                }
            }
            o2.lock().unwrap().done = true;
        };
        let judge: Judge = Box::new(move |out: &Outcome| {
            let o = obs.lock().unwrap();
            let mut v = Verdict::default();
            v.findings.extend(panic_findings(out, "C09"));
            if out.ending != Ending::Completed || !o.done {
                v.fail("C09", "framing-stuck", format!("{:?}", out.ending));
            }
            for p in &o.problems {
                let sig = if p.contains("Connect::io") { "framing:handshake-refused" } else if p.contains("halves") || p.contains("half") { "framing:port-batch-refused" } else { "framing:other" };
                v.fail("C09", sig, p.clone());
            }
            v.outcome = format!("{}|{:?}", o.checked, o.problems);
            v.nontrivial = true;
            v
        });
        (Box::pin(root), judge)
    }
}

pub fn scenarios(tier: Tier) -> Vec<Arc<dyn Scenario>> {
    let mut out: Vec<Arc<dyn Scenario>> = Vec::new();
    let bases = [1u32, 0xFF, 0x100, 0xFFFF, 0x1_0000, u32::MAX];
    let hello_grid: Vec<(u64, u32, u32, u16)> = {
        let mut g = Vec::new();
        for t in [0u64, 1, 60_000, u32::MAX as u64 * 1000] {
            for cs in [4u32, 5, 16_384, u32::MAX - 16] {
                for rb in [4u32, 0x1_0000, u32::MAX] {
                    for cq in [1u16, 128, u16::MAX] {
                        g.push((t, cs, rb, cq));
                    }
                }
            }
        }
        g
    };
    for v in [2u8, 3] {
        for h in &hello_grid {
            out.push(Arc::new(WireScenario { case: Case::Hello(h.0, h.1, h.2, h.3), peer_version: v, port_base: 1 }));
        }
        for base in bases {
            for wait in [true, false] {
                for id in [None, Some(0), Some(u32::MAX), Some(0x0102_0304)] {
                    out.push(Arc::new(WireScenario { case: Case::OpenPort { wait, custom_id: id }, peer_version: v, port_base: base }));
                }
            }
            for pp in [0u32, 1, 0xFF, 0x100, 0xFFFF, 0x1_0000, u32::MAX] {
                for id in [None, Some(0), Some(u32::MAX)] {
                    for (accept, np) in [(true, false), (false, false), (false, true)] {
                        out.push(Arc::new(WireScenario { case: Case::Answer { peer_port: pp, id, accept, no_ports: np }, peer_version: v, port_base: base }));
                    }
                }
            }
            out.push(Arc::new(WireScenario { case: Case::Data(vec![0, 1, 7, 8, 9, 16, 17, 25]), peer_version: v, port_base: base }));
            for k in [1usize, 2, 3, 5] {
                for wait in [true, false] {
                    out.push(Arc::new(WireScenario { case: Case::PortData { k, wait }, peer_version: v, port_base: base }));
                }
            }
            out.push(Arc::new(WireScenario { case: Case::Lifecycle, peer_version: v, port_base: base }));
            out.push(Arc::new(WireScenario { case: Case::AcceptData, peer_version: v, port_base: base }));
            for ids in [true, false] {
                out.push(Arc::new(WireScenario { case: Case::AcceptPortMsgs { with_ids: ids }, peer_version: v, port_base: base }));
            }
            out.push(Arc::new(WireScenario { case: Case::AcceptFinishes, peer_version: v, port_base: base }));
        }
        out.push(Arc::new(WireScenario { case: Case::Ping, peer_version: v, port_base: 1 }));
    }
    // framing over Connect::io
    let chunks: Vec<u32> = if tier == Tier::Quick { vec![4, 5, 8, 9, 10, 11, 12, 16, 64] } else { (4..=24).chain([32, 64, 128]).collect() };
    for cs in &chunks {
        for pipe in [1usize, 3, 64, 4096] {
            out.push(Arc::new(FramingScenario { case: FrameCase::Pair { chunk: *cs, pipe, halves: 0 } }));
        }
        // the largest batch a conforming sender can put into one frame: chunk/4 ports
        out.push(Arc::new(FramingScenario { case: FrameCase::Pair { chunk: *cs, pipe: 4096, halves: (*cs / 4) as usize } }));
        out.push(Arc::new(FramingScenario { case: FrameCase::Pair { chunk: *cs, pipe: 5, halves: (*cs / 4) as usize + 1 } }));
    }
    for pipe in [1usize, 2, 3, 4, 5, 7, 64] {
        out.push(Arc::new(FramingScenario { case: FrameCase::Prefix { pipe } }));
    }
    out.push(Arc::new(FramingScenario { case: FrameCase::Oversize }));
    out
}

pub fn all_scenarios(tier: Tier) -> Vec<Arc<dyn Scenario>> {
    scenarios(tier)
}

pub fn run(tier: Tier, seed: u64) -> i32 {
    let mut rep = Report::new("C09", tier, seed);
    let known = known_sigs("C09");
    let q = tier == Tier::Quick;
    let p = Params { max_dev: 0, seeds: vec![seed], time_limit: Duration::from_secs(if q { 40 } else { 600 }), ..Default::default() };
    rep.add("emit / accept / negotiation / framing conversations against the reference codec", explore("C09", scenarios(tier), p, &known));
    rep.exhaustive = true;
    rep.rule = "a case = one scripted conversation: (message kind and flag combination, boundary values of port numbers / ids / credits / cfg fields, peer version 2 or 3) or one Connect::io framing set-up (chunk size, pipe buffer size forcing short reads/writes, port batch size); distinct = distinct (checks performed, mismatches); non-trivial = more than the handshake was compared".into();
    rep.assumptions = vec![
        "reference = /verif/spec/chmux_v3.md transcribed once and frozen; the harness codec shares no code with remoc".into(),
        "finite domain enumerated completely as listed in the scenario grid (not all 2^32 values: boundary values per field)".into(),
    ];
    rep.finish()
}
