//! C06 Fail-stop: transport failure at any point errors every operation, hangs nothing.

use bytes::Bytes;
use futures::future::BoxFuture;
use remoc::chmux::{self, Cfg};
use std::{collections::BTreeMap, sync::Arc, time::Duration};

use crate::{
    explore::{Params, explore},
    net::{Fault, FaultKind, LinkOpts, WireKind},
    report::{Report, Tier, known_sigs},
    util::{Shared, hex, panic_findings, payload, shared},
    world::{Ending, Env, Judge, Outcome, Scenario, Verdict, cfg},
};

#[derive(Default)]
struct Obs {
    /// op name -> (time ms, result)
    ops: BTreeMap<String, (u64, String)>,
    started: Vec<(String, u64)>,
    a_sent: Vec<Vec<u8>>,
    b_sent: Vec<Vec<u8>>,
    a_got: Vec<Vec<u8>>,
    b_got: Vec<Vec<u8>>,
    late: BTreeMap<String, String>,
    waited_until_ms: u64,
    fault_judged: bool,
}

pub struct FaultScenario {
    pub fault: Option<Fault>,
    /// connection timeouts in seconds (None = disabled)
    pub ta: Option<u64>,
    pub tb: Option<u64>,
    /// healthy idle period (multiples of the larger timeout) instead of a fault
    pub idle_factor: u64,
}

fn rec(obs: &Shared<Obs>, env: &Env, name: &str, res: String) {
    obs.lock().unwrap().ops.insert(name.to_string(), (env.now_ms(), res));
}

fn begin(obs: &Shared<Obs>, env: &Env, name: &str) {
    obs.lock().unwrap().started.push((name.to_string(), env.now_ms()));
}

fn r2s<T, E: std::fmt::Debug>(r: &Result<T, E>) -> String {
    match r {
        Ok(_) => "ok".into(),
        Err(e) => format!("err:{e:?}"),
    }
}

impl Scenario for FaultScenario {
    fn id(&self) -> String {
        format!("c06/{:?}/ta{:?}/tb{:?}/idle{}", self.fault, self.ta, self.tb, self.idle_factor)
    }

    fn watchdog_secs(&self) -> u64 {
        100_000
    }

    fn horizon(&self) -> u32 {
        200_000
    }

    fn start(&self, env: Env) -> (BoxFuture<'static, ()>, Judge) {
        let obs = shared(Obs::default());
        let (fault, ta, tb, idle_factor) = (self.fault, self.ta, self.tb, self.idle_factor);
        let mk = |t: Option<u64>| Cfg { connection_timeout: t.map(Duration::from_secs), ..cfg(8, 16, 64, 2, 2) };
        let (cfg_a, cfg_b) = (mk(ta), mk(tb));
        let o2 = obs.clone();
        let root = async move {
            env.explore(true);
            let link = LinkOpts { capacity: 2, deliver_cap: 2, eof_on_drop: true };
            let faults: Vec<Fault> = fault.into_iter().collect();
            let (ea, eb) = env.link(link, &faults);
            let ra = env.endpoint("A", 1, cfg_a, ea);
            let rb = env.endpoint("B", 2, cfg_b, eb);
            let gap = Duration::from_secs(ta.unwrap_or(0).max(tb.unwrap_or(0)).max(1) * idle_factor.max(1) + 3);

            // Endpoint A workload.
            let (oa, ea2) = (o2.clone(), env.clone());
            let a = env.spawn("A.actor", 1, async move {
                let (client, listener) = match ra.await {
                    Ok(Ok(x)) => x,
                    _ => return None,
                };
                begin(&oa, &ea2, "a.connect");
                let r = client.connect().await;
                rec(&oa, &ea2, "a.connect", r2s(&r));
                let Ok((mut tx, mut rx)) = r else { return Some((client, listener, None)) };
                let m1 = payload(1, 20);
                begin(&oa, &ea2, "a.send1");
                let r = tx.send(m1.clone()).await;
                rec(&oa, &ea2, "a.send1", r2s(&r));
                if r.is_ok() {
                    oa.lock().unwrap().a_sent.push(m1.to_vec());
                    begin(&oa, &ea2, "a.recv-echo");
                    let r = rx.recv().await;
                    rec(&oa, &ea2, "a.recv-echo", r2s(&r));
                    if let Ok(Some(m)) = r {
                        oa.lock().unwrap().a_got.push(Vec::<u8>::from(m));
                        tokio::time::sleep(gap).await;
                        let m2 = payload(2, 3);
                        begin(&oa, &ea2, "a.send2");
                        let r = tx.send(m2.clone()).await;
                        rec(&oa, &ea2, "a.send2", r2s(&r));
                        if r.is_ok() {
                            oa.lock().unwrap().a_sent.push(m2.to_vec());
                        }
                    }
                }
                // a second port whose receiver never reads: the sender ends up parked waiting for credit
                let blocked = {
                    let (ob2, eb3, client2) = (oa.clone(), ea2.clone(), client.clone());
                    ea2.spawn("A.blocked", 1, async move {
                        begin(&ob2, &eb3, "a.connect2");
                        let r = client2.connect().await;
                        rec(&ob2, &eb3, "a.connect2", r2s(&r));
                        if let Ok((mut tx2, rx2)) = r {
                            begin(&ob2, &eb3, "a.send-blocked-pending");
                            let r = tx2.send(payload(5, 64)).await;
                            rec(&ob2, &eb3, "a.send-blocked-pending", match &r {
                                Ok(()) => "ok:data".into(),
                                Err(e) => format!("err:{e:?}"),
                            });
                            return Some((tx2, rx2));
                        }
                        None
                    })
                };
                // operations that stay pending until the connection fails
                begin(&oa, &ea2, "a.recv-pending");
                let r = rx.recv().await;
                rec(&oa, &ea2, "a.recv-pending", match &r {
                    Ok(Some(_)) => "ok:data".into(),
                    Ok(None) => "ok:eos".into(),
                    Err(e) => format!("err:{e:?}"),
                });
                let _ = blocked.await;
                Some((client, listener, Some((tx, rx))))
            });
            // Endpoint B workload.
            let (ob, eb2) = (o2.clone(), env.clone());
            let b = env.spawn("B.actor", 2, async move {
                let (client, mut listener) = match rb.await {
                    Ok(Ok(x)) => x,
                    _ => return None,
                };
                begin(&ob, &eb2, "b.accept");
                let r = listener.accept().await;
                rec(&ob, &eb2, "b.accept", r2s(&r));
                let Ok(Some((mut tx, mut rx))) = r else { return Some((client, listener, None)) };
                begin(&ob, &eb2, "b.recv1");
                let r = rx.recv().await;
                rec(&ob, &eb2, "b.recv1", r2s(&r));
                if let Ok(Some(m)) = r {
                    let m: Vec<u8> = m.into();
                    ob.lock().unwrap().b_got.push(m.clone());
                    begin(&ob, &eb2, "b.echo");
                    let r = tx.send(Bytes::from(m.clone())).await;
                    rec(&ob, &eb2, "b.echo", r2s(&r));
                    if r.is_ok() {
                        ob.lock().unwrap().b_sent.push(m);
                    }
                    begin(&ob, &eb2, "b.recv2");
                    let r = rx.recv().await;
                    rec(&ob, &eb2, "b.recv2", r2s(&r));
                    if let Ok(Some(m)) = r {
                        ob.lock().unwrap().b_got.push(m.into());
                    }
                }
                begin(&ob, &eb2, "b.accept2");
                let r = listener.accept().await;
                rec(&ob, &eb2, "b.accept2", r2s(&r));
                // held but never read
                let _idle_port = r.ok().flatten();
                begin(&ob, &eb2, "b.accept-pending");
                let r = listener.accept().await;
                rec(&ob, &eb2, "b.accept-pending", match &r {
                    Ok(Some(_)) => "ok:some".into(),
                    Ok(None) => "ok:none".into(),
                    Err(e) => format!("err:{e:?}"),
                });
                begin(&ob, &eb2, "b.closed-pending");
                tx.closed().await;
                rec(&ob, &eb2, "b.closed-pending", "resolved".into());
                Some((client, listener, Some((tx, rx))))
            });

            // Wait until both dispatchers ended or the horizon of this scenario passed.
            let limit_ms = (gap.as_millis() as u64) + 1000 * (3 * ta.unwrap_or(0).max(tb.unwrap_or(0)) + 30);
            let tmax_ms = 1000 * ta.unwrap_or(0).max(tb.unwrap_or(0));
            let mut fault_seen: Option<u64> = None;
            loop {
                tokio::time::sleep(Duration::from_millis(500)).await;
                if fault_seen.is_none() {
                    fault_seen = env.wire.snapshot().iter().find(|e| e.kind == WireKind::Fault).map(|e| e.ms);
                }
                let done = env.mux_result("A").is_some() && env.mux_result("B").is_some();
                let now = env.now_ms();
                match fault_seen {
                    Some(tf) => {
                        if done || now > tf + 3 * tmax_ms + 30_000 {
                            break;
                        }
                    }
                    None => {
                        if done || now > limit_ms {
                            break;
                        }
                    }
                }
            }
            o2.lock().unwrap().fault_judged = fault_seen.is_some();
            o2.lock().unwrap().waited_until_ms = env.now_ms();
            // One further timeout for pending operations.
            tokio::time::sleep(Duration::from_secs(ta.unwrap_or(0).max(tb.unwrap_or(0)) + 2)).await;
            env.explore(false);
            // Late operations on handles of terminated endpoints.
            let a_out = if a.is_finished() { a.await.ok().flatten() } else { None };
            let b_out = if b.is_finished() { b.await.ok().flatten() } else { None };
            let mut a_port = None;
            if let Some((client, _listener, port)) = a_out {
                a_port = port;
                if env.mux_result("A").is_some() {
                    let r = tokio::time::timeout(Duration::from_secs(5), client.connect()).await;
                    o2.lock().unwrap().late.insert("a.connect".into(), match r {
                        Err(_) => "hang".into(),
                        Ok(r) => r2s(&r),
                    });
                }
            }
            if let (Some((_client, mut listener, port)), Some(_)) = (b_out, env.mux_result("B")) {
                let r = tokio::time::timeout(Duration::from_secs(5), listener.accept()).await;
                o2.lock().unwrap().late.insert("b.accept".into(), match r {
                    Err(_) => "hang".into(),
                    Ok(Ok(None)) => "ok:none".into(),
                    Ok(r) => r2s(&r),
                });
                if let Some((mut tx, _rx)) = port {
                    let r = tokio::time::timeout(Duration::from_secs(5), tx.send(Bytes::from_static(b"late"))).await;
                    o2.lock().unwrap().late.insert("b.send".into(), match r {
                        Err(_) => "hang".into(),
                        Ok(r) => r2s(&r),
                    });
                }
            }
            if let Some((mut tx, _rx)) = a_port {
                if env.mux_result("A").is_some() {
                    let r = tokio::time::timeout(Duration::from_secs(5), tx.send(Bytes::from_static(b"late"))).await;
                    o2.lock().unwrap().late.insert("a.send".into(), match r {
                        Err(_) => "hang".into(),
                        Ok(r) => r2s(&r),
                    });
                }
            }
        };
        let judge: Judge = Box::new(move |out: &Outcome| {
            let o = obs.lock().unwrap();
            let mut v = Verdict::default();
            v.findings.extend(panic_findings(out, "C06"));
            let t_of = |t: Option<u64>| t.map(|s| s * 1000);
            let touts = [t_of(ta), t_of(tb)];
            // a fault that became effective only after the observation window is not judged
            let fault_ms = out.wire.iter().find(|e| e.kind == WireKind::Fault).map(|e| e.ms).filter(|_| o.fault_judged);
            let res = [out.mux.get("A").cloned(), out.mux.get("B").cloned()];
            if out.ending != Ending::Completed {
                v.fail("C06", "scenario-stuck", format!("{:?}", out.ending));
            }
            match (fault, fault_ms) {
                (None, _) => {
                    // healthy idle connection: nobody may fail
                    for (i, r) in res.iter().enumerate() {
                        if let Some((t, Err(e))) = r {
                            v.fail("C06", "healthy-connection-torn-down", format!("endpoint {i} failed at {t} ms with {e} on a healthy idle transport (timeouts {ta:?}/{tb:?})"));
                        }
                    }
                    for (name, (_, r)) in &o.ops {
                        if r.starts_with("err") {
                            v.fail("C06", "healthy-operation-failed", format!("{name}: {r}"));
                        }
                    }
                    if o.b_got.len() != 2 {
                        v.fail("C06", "healthy-data-missing", format!("B received {} of 2 messages across the idle period", o.b_got.len()));
                    }
                }
                (Some(_), None) => {
                    // the fault never became effective (frame index beyond the workload): treated as healthy
                }
                (Some(f), Some(tf)) => {
                    // who observes directly?  dir 0 = A->B: sink side A, stream side B.
                    let (sender, receiver) = if f.dir == 0 { (0usize, 1usize) } else { (1, 0) };
                    let observer: Option<usize> = match f.kind {
                        FaultKind::SinkError => Some(sender),
                        FaultKind::StreamError | FaultKind::Eof => Some(receiver),
                        _ => None,
                    };
                    let mut deadline: [Option<u64>; 2] = [None, None];
                    for x in 0..2 {
                        let mut d: Option<u64> = None;
                        if observer == Some(x) {
                            d = Some(tf + 1000);
                        }
                        // silence past own timeout
                        let silent = match f.kind {
                            FaultKind::StallBoth => true,
                            FaultKind::StallOne => x == receiver,
                            _ => false,
                        };
                        if silent {
                            if let Some(t) = touts[x] {
                                d = Some(d.map_or(tf + t + 1000, |d| d.min(tf + t + 1000)));
                            }
                        }
                        deadline[x] = d;
                    }
                    // peer termination closes the link unless that direction is stalled
                    for _round in 0..2 {
                        for x in 0..2 {
                            let p = 1 - x;
                            let dir_p_to_x = p as u8; // frames sent by p travel on dir p
                            let stalled = match f.kind {
                                FaultKind::StallBoth => true,
                                FaultKind::StallOne => f.dir == dir_p_to_x,
                                _ => false,
                            };
                            if !stalled {
                                if let Some(dp) = deadline[p] {
                                    let cand = dp + touts[x].map(|_| 0).unwrap_or(0) + 1000;
                                    deadline[x] = Some(deadline[x].map_or(cand, |d| d.min(cand)));
                                }
                            }
                        }
                    }
                    for x in 0..2 {
                        let name = if x == 0 { "A" } else { "B" };
                        if let Some(d) = deadline[x] {
                            match &res[x] {
                                Some((t, Err(_))) if *t <= d => {}
                                Some((t, Err(e))) => v.fail("C06", format!("terminated-late:{:?}", f.kind), format!("{name} failed at {t} ms ({e}) but had to fail by {d} ms (fault at {tf} ms)")),
                                Some((t, Ok(()))) => {
                                    // orderly Ok is impossible in this workload (handles are held)
                                    v.fail("C06", format!("terminated-ok-after-fault:{:?}", f.kind), format!("{name} returned Ok at {t} ms after fault {f:?}"))
                                }
                                None => v.fail(
                                    "C06",
                                    format!("dispatcher-survives-fault:{:?}", f.kind),
                                    format!("{name} still running at {} ms although fault {f:?} became effective at {tf} ms (deadline {d} ms, timeouts {ta:?}/{tb:?})", o.waited_until_ms),
                                ),
                            }
                            // every started operation of that endpoint must have completed
                            let prefix = if x == 0 { "a." } else { "b." };
                            for (s, t_start) in o.started.iter().filter(|(s, _)| s.starts_with(prefix)) {
                                match o.ops.get(s) {
                                    None => v.fail("C06", format!("operation-hangs-after-failure:{s}"), format!("{s} still pending after {name} failed (fault {f:?} at {tf} ms)")),
                                    Some((t, r)) => {
                                        let limit = d.max(*t_start) + touts[x].unwrap_or(0) + 3000;
                                        if *t > limit {
                                            v.fail("C06", format!("operation-late:{s}"), format!("{s} completed at {t} ms > {limit} ms with {r}"));
                                        }
                                        if s.ends_with("pending") && (r.starts_with("ok:data") || r.starts_with("ok:some")) {
                                            v.fail("C06", format!("pending-operation-succeeded:{s}"), r.clone());
                                        }
                                    }
                                }
                            }
                        }
                    }
                    for (name, r) in &o.late {
                        if r == "hang" || r == "ok" {
                            v.fail("C06", format!("late-operation-not-failing:{name}"), format!("{name} issued after the failure: {r}"));
                        }
                    }
                }
            }
            // prefix property
            if !o.a_sent.starts_with(&o.b_got) {
                v.fail("C06", "received-not-prefix", format!("A sent {:?}, B got {:?}", o.a_sent.iter().map(|m| hex(m)).collect::<Vec<_>>(), o.b_got.iter().map(|m| hex(m)).collect::<Vec<_>>()));
            }
            if !o.b_sent.starts_with(&o.a_got) {
                v.fail("C06", "received-not-prefix", "echo direction".to_string());
            }
            v.outcome = format!("{:?}|{:?}|{:?}|{:?}", res.iter().map(|r| r.as_ref().map(|(_, r)| r.is_ok())).collect::<Vec<_>>(), o.ops.iter().map(|(k, (_, r))| format!("{k}={}", &r[..r.len().min(12)])).collect::<Vec<_>>(), o.late, fault_ms.is_some());
            v.nontrivial = fault_ms.is_some() || fault.is_none();
            v
        });
        (Box::pin(root), judge)
    }
}

fn mk(fault: Option<Fault>, ta: Option<u64>, tb: Option<u64>, idle: u64) -> Arc<dyn Scenario> {
    Arc::new(FaultScenario { fault, ta, tb, idle_factor: idle })
}

pub fn scenarios(tier: Tier) -> Vec<Arc<dyn Scenario>> {
    let mut out = Vec::new();
    // The default schedule puts < 40 frames on each direction (with pings during the gap).
    let n = if tier == Tier::Quick { 34 } else { 48 };
    let pairs: &[(Option<u64>, Option<u64>)] = &[(Some(10), Some(60)), (Some(60), Some(10)), (Some(10), Some(10)), (None, Some(10)), (None, None)];
    for (ta, tb) in pairs {
        for dir in 0..2u8 {
            for at in 0..n {
                for kind in [FaultKind::SinkError, FaultKind::StreamError, FaultKind::Eof, FaultKind::StallBoth, FaultKind::StallOne] {
                    out.push(mk(Some(Fault { dir, at, kind }), *ta, *tb, 1));
                }
            }
        }
    }
    // healthy idle connections
    for (ta, tb) in [(Some(10), Some(60)), (Some(60), Some(10)), (Some(10), Some(10)), (None, Some(10)), (Some(1), Some(1))] {
        out.push(mk(None, ta, tb, 20));
    }
    out
}

pub fn all_scenarios(tier: Tier) -> Vec<Arc<dyn Scenario>> {
    let mut v = scenarios(tier);
    v.extend(super::c06t::scenarios(tier));
    v
}

pub fn run(tier: Tier, seed: u64) -> i32 {
    let mut rep = Report::new("C06", tier, seed);
    rep.level = "fault_enumeration";
    let known = known_sigs("C06");
    let q = tier == Tier::Quick;
    let p = Params { max_dev: 1, preempt: !q, seeds: vec![seed], time_limit: Duration::from_secs(if q { 25 } else { 1200 }), ..Default::default() };
    rep.add("every frame index x direction x fault kind x timeout pair; healthy idle periods", explore("C06", scenarios(tier), p, &known));
    let pt = Params { max_dev: if q { 0 } else { 1 }, seeds: vec![seed], time_limit: Duration::from_secs(if q { 15 } else { 600 }), ..Default::default() };
    rep.add("typed layers (mpsc both ways, broadcast with a keeping-up or lagging subscriber, watch, oneshot, remote trait call in flight or later, remote function) under cut / stall / one-way stall: pending and later operations", explore("C06", super::c06t::scenarios(tier), pt, &known));
    rep.rule = "a case = (fault kind, direction, frame index incl. handshake frames and the chunks of a multi-chunk message, connection_timeout pair, schedule deviations) or a healthy idle period of 20x the larger timeout; distinct = distinct (dispatcher results, operation results, late operation results); non-trivial = the fault became effective (or the case is a healthy-idle case)".into();
    rep.assumptions = vec![
        "virtual time (paused Tokio clock): deadlines are fault time + own timeout (+1 s slack), or peer termination + 1 s when the link is not stalled towards the endpoint".into(),
        "an endpoint without connection_timeout has no obligation under silent stalls".into(),
        "workload: handshake, port open, 3-chunk message, echo, idle gap with pings, small message, pending recv/accept/closed".into(),
    ];
    rep.finish()
}
