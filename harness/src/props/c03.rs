//! C03 Flow control liveness: no credit leak, lost wake-up, livelock or port blocking.

use futures::future::BoxFuture;
use remoc::chmux::Cfg;
use std::{sync::Arc, time::Duration};

use super::c01::{End, Obs, Op, RecvStyle, receive_all, run_script};
use crate::{
    explore::{Params, explore},
    monitor::Ledger,
    net::LinkOpts,
    report::{Report, Tier, known_sigs},
    util::{ledger_findings, panic_findings, payload, shared},
    world::{Ending, Env, Judge, Outcome, Scenario, Verdict, cfg},
};

#[derive(Default)]
struct Probe {
    pool: Option<i64>,
    /// the receive buffer the peer advertised (pool + outstanding)
    rb: Option<i64>,
    probe_ok: Option<bool>,
    script_done: bool,
    setup_err: Option<String>,
}

/// (a) After any history of completed / failed / cancelled operations the sender still owns
/// exactly the credit the wire says it must own, and nothing is left pending.
pub struct LeakScenario {
    pub cfg_a: Cfg,
    pub cfg_b: Cfg,
    pub script: Vec<Op>,
    pub link: LinkOpts,
    pub style: RecvStyle,
}

impl Scenario for LeakScenario {
    fn id(&self) -> String {
        format!(
            "c03a/{}/a={},{},{},{}/b={},{},{}/l{}/{:?}",
            self.script.iter().map(|o| format!("{o:?}")).collect::<Vec<_>>().join(","),
            self.cfg_a.chunk_size,
            self.cfg_a.receive_buffer,
            self.cfg_a.shared_send_queue,
            self.cfg_a.transport_send_queue,
            self.cfg_b.chunk_size,
            self.cfg_b.receive_buffer,
            self.cfg_b.max_data_size,
            self.link.capacity,
            self.style
        )
    }

    fn start(&self, env: Env) -> (BoxFuture<'static, ()>, Judge) {
        let obs = shared(Obs::default());
        let probe = shared(Probe::default());
        let (cfg_a, cfg_b, script, link) = (self.cfg_a.clone(), self.cfg_b.clone(), self.script.clone(), self.link);
        let style = self.style;
        let max_ports = [cfg_a.max_ports, cfg_b.max_ports];
        let (o2, p2) = (obs.clone(), probe.clone());
        let root = async move {
            env.explore(false);
            let ((ca, la), (cb, mut lb)) = match env.pair(cfg_a, cfg_b, link, &[]).await {
                Ok(x) => x,
                Err(e) => {
                    p2.lock().unwrap().setup_err = Some(e);
                    return;
                }
            };
            let ca2 = ca.clone();
            let conn = env.spawn("connect", 1, async move { ca2.connect().await });
            let acc = env.spawn("accept", 2, async move {
                let r = lb.accept().await;
                (r, lb)
            });
            let (mut tx, _rx_a) = match conn.await {
                Ok(Ok(x)) => x,
                other => {
                    p2.lock().unwrap().setup_err = Some(format!("connect: {:?}", other.map(|r| r.map(|_| ()))));
                    return;
                }
            };
            let (_tx_b, mut rx, lb) = match acc.await {
                Ok((Ok(Some((t, r))), lb)) => (t, r, lb),
                _ => {
                    p2.lock().unwrap().setup_err = Some("accept failed".into());
                    return;
                }
            };
            let local_port = tx.local_port();
            // The peer sends in the opposite direction on request of the script.
            let (peer_tx, mut peer_rx) = tokio::sync::mpsc::unbounded_channel::<(usize, tokio::sync::oneshot::Sender<bool>)>();
            o2.lock().unwrap().peer = Some(peer_tx);
            let mut tx_b = _tx_b;
            let peer = env.spawn("peer", 2, async move {
                let mut i = 50;
                while let Some((n, ack)) = peer_rx.recv().await {
                    let r = tx_b.send(payload(i, n)).await.is_ok();
                    i += 1;
                    let _ = ack.send(r);
                }
                tx_b
            });
            env.explore(true);
            let (o3, env2) = (o2.clone(), env.clone());
            let sender = env.spawn("sender", 1, async move {
                run_script(&env2, &mut tx, &script, &o3).await;
                o3.lock().unwrap().sender_done = true;
                tx
            });
            let o4 = o2.clone();
            let receiver = env.spawn("receiver", 2, async move {
                receive_all(&mut rx, style, &o4).await;
                rx
            });
            let mut tx = sender.await.unwrap();
            p2.lock().unwrap().script_done = true;
            env.explore(false);
            env.dir(0, 0).hold(false);
            env.dir(0, 1).hold(false);
            env.quiesce().await;
            // Credit conservation probe.
            let ledger = Ledger::build(0, max_ports, &env.wire.snapshot());
            let pool = ledger.rec_of(0, local_port).map(|r| ledger.pool(r, 0));
            p2.lock().unwrap().pool = pool;
            p2.lock().unwrap().rb = ledger.rec_of(0, local_port).map(|r| ledger.pool(r, 0) + (r.flow[0].cost_sent as i64 - r.flow[0].credits_delivered as i64));
            if let Some(pool) = pool {
                if pool > 0 {
                    // No new credit can reach the sender while the reverse direction is held.
                    env.dir(0, 1).hold(true);
                    let data = payload(99, pool as usize);
                    let r = tokio::time::timeout(Duration::from_secs(10), tx.send(data)).await;
                    p2.lock().unwrap().probe_ok = Some(matches!(r, Ok(Ok(()))));
                    env.dir(0, 1).hold(false);
                }
            }
            drop(tx);
            o2.lock().unwrap().peer = None;
            let _tx_b = peer.await;
            let _ = receiver.await;
            drop((ca, la, cb, lb, _rx_a, _tx_b));
            env.quiesce().await;
        };
        let judge: Judge = Box::new(move |out: &Outcome| {
            let o = obs.lock().unwrap();
            let p = probe.lock().unwrap();
            let mut v = Verdict::default();
            v.findings.extend(panic_findings(out, "C03"));
            let (_l, lf) = ledger_findings(out, 0, max_ports, [false, false]);
            v.findings.extend(lf);
            if let Some(e) = &p.setup_err {
                v.fail("C03", "setup-failed", e.clone());
            }
            match out.ending {
                Ending::Completed => {}
                Ending::Horizon => v.fail("C03", "livelock", format!("step horizon reached; results {:?}", o.results)),
                _ => {
                    if !p.script_done {
                        v.fail(
                            "C03",
                            "operation-pending-at-quiescence",
                            format!("script did not finish although the receiver consumed everything; results so far {:?}; receiver {:?}", o.results, o.recv_events),
                        );
                    } else if p.probe_ok.is_none() && p.pool.unwrap_or(0) > 0 {
                        v.fail("C03", "stuck-after-script", format!("results {:?}", o.results));
                    } else {
                        v.fail("C03", "stuck-at-shutdown", format!("results {:?} recv_end {:?}", o.results, o.recv_end));
                    }
                }
            }
            // with everything consumed and every credit frame delivered, the receiver may hold back less than its
            // return threshold (half its buffer; 1 for buffers below 8); more means consumed credit is never returned
            if let (Some(pool), Some(rb), Ending::Completed) = (p.pool, p.rb, out.ending) {
                let threshold = if rb >= 8 { rb / 2 } else { 1 };
                let outstanding = rb - pool;
                if p.script_done && outstanding >= threshold {
                    v.fail(
                        "C03",
                        "consumed-credit-not-returned",
                        format!("after the script {:?} the receiver has consumed everything, yet {outstanding} of {rb} credits are outstanding (return threshold {threshold})", o.results),
                    );
                }
            }
            if p.probe_ok == Some(false) {
                v.fail(
                    "C03",
                    "credit-leak",
                    format!(
                        "after the script {:?} the wire ledger says the sender owns {} credits, but send({}) did not complete with the receiver idle: credits were lost",
                        o.results,
                        p.pool.unwrap_or(0),
                        p.pool.unwrap_or(0)
                    ),
                );
            }
            v.outcome = format!("{:?}|pool={:?}|probe={:?}|{:?}", o.results, p.pool, p.probe_ok, out.ending);
            v.nontrivial = o.cancel_landed || o.results.iter().any(|r| r.starts_with("tryerr"));
            v
        });
        (Box::pin(root), judge)
    }
}

/// (b) Multi-port open requests with little credit in hand must not spin.
pub struct ConnectScenario {
    pub cfg_a: Cfg,
    pub cfg_b: Cfg,
    pub pre: usize,
    pub k: usize,
}

impl Scenario for ConnectScenario {
    fn id(&self) -> String {
        format!(
            "c03b/pre{}/k{}/a={},{}/b={},{}",
            self.pre, self.k, self.cfg_a.chunk_size, self.cfg_a.receive_buffer, self.cfg_b.chunk_size, self.cfg_b.receive_buffer
        )
    }

    fn horizon(&self) -> u32 {
        3000
    }

    fn start(&self, env: Env) -> (BoxFuture<'static, ()>, Judge) {
        let obs = shared(Obs::default());
        let (cfg_a, cfg_b, pre, k) = (self.cfg_a.clone(), self.cfg_b.clone(), self.pre, self.k);
        let max_ports = [cfg_a.max_ports, cfg_b.max_ports];
        let o2 = obs.clone();
        let root = async move {
            env.explore(false);
            let link = LinkOpts { capacity: 1, deliver_cap: 1, eof_on_drop: false };
            let Ok(((ca, la), (cb, mut lb))) = env.pair(cfg_a, cfg_b, link, &[]).await else {
                o2.lock().unwrap().setup_err = Some("pair".into());
                return;
            };
            let (conn, acc) = tokio::join!(ca.connect(), lb.accept());
            let (Ok((mut tx, _rx_a)), Ok(Some((_tx_b, mut rx)))) = (conn, acc) else {
                o2.lock().unwrap().setup_err = Some("connect".into());
                return;
            };
            env.explore(true);
            let script = if pre > 0 { vec![Op::Send(pre), Op::Connect(k, true)] } else { vec![Op::Connect(k, true)] };
            let (o3, env2) = (o2.clone(), env.clone());
            let sender = env.spawn("sender", 1, async move {
                run_script(&env2, &mut tx, &script, &o3).await;
                o3.lock().unwrap().sender_done = true;
                tx
            });
            let o4 = o2.clone();
            let receiver = env.spawn("receiver", 2, async move {
                receive_all(&mut rx, RecvStyle::AnyAfterCancel, &o4).await;
                rx
            });
            let tx = sender.await;
            env.quiesce().await;
            drop(tx);
            let _ = receiver.await;
            env.explore(false);
            drop((ca, la, cb, lb, _rx_a, _tx_b));
            env.quiesce().await;
        };
        let judge: Judge = Box::new(move |out: &Outcome| {
            let o = obs.lock().unwrap();
            let mut v = Verdict::default();
            v.findings.extend(panic_findings(out, "C03"));
            let (l, lf) = ledger_findings(out, 0, max_ports, [false, false]);
            v.findings.extend(lf);
            let port_frames: u32 = l.recs.iter().map(|r| r.flow[0].port_frames).sum();
            match out.ending {
                Ending::Completed => {
                    if o.requests_received != o.connects_sent {
                        v.fail("C03", "port-requests-lost", format!("{} requests sent, {} obtained by the receiver", o.connects_sent, o.requests_received));
                    }
                    // frames per operation bound: at most one PortData frame per port
                    if port_frames as usize > k.max(1) {
                        v.fail("C03", "too-many-port-frames", format!("{port_frames} PortData frames for {k} ports"));
                    }
                }
                Ending::Horizon => v.fail(
                    "C03",
                    "connect-livelock",
                    format!("connect({k} ports) after send({pre}) never returned: {port_frames} PortData frames emitted within the step horizon; results {:?}", o.results),
                ),
                _ => v.fail("C03", "connect-stuck", format!("results {:?}; receiver {:?}", o.results, o.recv_events)),
            }
            v.outcome = format!("{:?}|{:?}|frames={}|{:?}", o.results, o.recv_events, port_frames, out.ending);
            v.nontrivial = port_frames > 1 || k > 1;
            v
        });
        (Box::pin(root), judge)
    }
}

#[derive(Default)]
struct IsoObs {
    blocked_sent: usize,
    exchanged: Vec<String>,
    done: bool,
    err: Option<String>,
}

/// (c) A port whose receiver does not consume never blocks other ports.
pub struct IsolationScenario {
    pub cfg_a: Cfg,
    pub cfg_b: Cfg,
    /// how the stalled port's sender gets stuck: 0 = whole messages as large as the receive buffer,
    /// 1 = a chunked message whose body uses up exactly the granted credit, then finish(),
    /// 2 = a chunked message with a chunk larger than the remaining credit,
    /// 3 = port requests (connect) over the stalled port after its credit is used up
    pub mode: u8,
}

impl Scenario for IsolationScenario {
    fn id(&self) -> String {
        format!(
            "c03c/m{}/a={},{},{},{}/b={},{}",
            self.mode,
            self.cfg_a.chunk_size,
            self.cfg_a.receive_buffer,
            self.cfg_a.shared_send_queue,
            self.cfg_a.transport_send_queue,
            self.cfg_b.chunk_size,
            self.cfg_b.receive_buffer
        )
    }

    fn start(&self, env: Env) -> (BoxFuture<'static, ()>, Judge) {
        let obs = shared(IsoObs::default());
        let (cfg_a, cfg_b) = (self.cfg_a.clone(), self.cfg_b.clone());
        let mode = self.mode;
        let rb = cfg_b.receive_buffer as usize;
        let max_ports = [cfg_a.max_ports, cfg_b.max_ports];
        let o2 = obs.clone();
        let root = async move {
            env.explore(false);
            let link = LinkOpts { capacity: 1, deliver_cap: 1, eof_on_drop: false };
            let Ok(((ca, _la), (_cb, mut lb))) = env.pair(cfg_a, cfg_b, link, &[]).await else {
                o2.lock().unwrap().err = Some("pair".into());
                return;
            };
            // port 1: receiver never consumes
            let (c1, a1) = tokio::join!(ca.connect(), lb.accept());
            let (Ok((mut tx1, _r1)), Ok(Some((_t1, rx1_idle)))) = (c1, a1) else {
                o2.lock().unwrap().err = Some("port1".into());
                return;
            };
            let (c2, a2) = tokio::join!(ca.connect(), lb.accept());
            let (Ok((mut tx2, mut rx2a)), Ok(Some((mut tx2b, mut rx2)))) = (c2, a2) else {
                o2.lock().unwrap().err = Some("port2".into());
                return;
            };
            env.explore(true);
            let o3 = o2.clone();
            let _blocked = env.spawn("blocked-sender", 1, async move {
                match mode {
                    0 => {
                        for i in 0..4 {
                            if tx1.send(payload(i, rb)).await.is_err() {
                                break;
                            }
                            o3.lock().unwrap().blocked_sent += 1;
                        }
                    }
                    1 | 2 => {
                        // body of exactly rb bytes (mode 2: one byte more in the last chunk), then the empty final frame
                        let half = rb / 2;
                        let mut cs = Some(tx1.send_chunks());
                        for (i, n) in [half, rb - half + if mode == 2 { 1 } else { 0 }].into_iter().enumerate() {
                            match cs.take().unwrap().send(payload(i, n)).await {
                                Ok(c) => {
                                    cs = Some(c);
                                    o3.lock().unwrap().blocked_sent += 1;
                                }
                                Err(_) => break,
                            }
                        }
                        if let Some(cs) = cs {
                            let _ = cs.finish().await;
                            o3.lock().unwrap().blocked_sent += 1;
                        }
                    }
                    _ => {
                        // use up the credit, then ask for ports over the stalled port
                        if tx1.send(payload(0, rb)).await.is_ok() {
                            o3.lock().unwrap().blocked_sent += 1;
                            if let Ok(connects) = tx1.connect(vec![remoc::chmux::PortReq::new(tx1.port_allocator().allocate().await), remoc::chmux::PortReq::new(tx1.port_allocator().allocate().await)], true).await {
                                o3.lock().unwrap().blocked_sent += 1;
                                drop(connects);
                            }
                        }
                    }
                }
                tx1
            });
            let o4 = o2.clone();
            let echo = env.spawn("echo", 2, async move {
                while let Ok(Some(m)) = rx2.recv().await {
                    let b: bytes::Bytes = m.into();
                    if tx2b.send(b).await.is_err() {
                        break;
                    }
                }
                (tx2b, rx2)
            });
            let ca2 = ca.clone();
            let worker = env.spawn("worker", 1, async move {
                for i in 0..3 {
                    let data = payload(10 + i, rb + 1);
                    if let Err(e) = tx2.send(data.clone()).await {
                        o4.lock().unwrap().err = Some(format!("send: {e:?}"));
                        return;
                    }
                    match rx2a.recv().await {
                        Ok(Some(m)) => {
                            let b: bytes::Bytes = m.into();
                            o4.lock().unwrap().exchanged.push(if b == data { "ok".into() } else { "corrupt".into() });
                        }
                        other => {
                            o4.lock().unwrap().err = Some(format!("recv: {:?}", other.map(|o| o.is_some())));
                            return;
                        }
                    }
                }
                // a new port opened while port 1 is blocked
                match ca2.connect().await {
                    Ok((mut tx3, _rx3)) => {
                        if tx3.send(payload(20, 3)).await.is_ok() {
                            o4.lock().unwrap().exchanged.push("port3-sent".into());
                        }
                    }
                    Err(e) => o4.lock().unwrap().err = Some(format!("connect3: {e:?}")),
                }
                o4.lock().unwrap().done = true;
            });
            let o5 = o2.clone();
            let acceptor = env.spawn("acceptor3", 2, async move {
                if let Ok(Some((_t3, mut r3))) = lb.accept().await {
                    if let Ok(Some(_)) = r3.recv().await {
                        o5.lock().unwrap().exchanged.push("port3-received".into());
                    }
                }
                lb
            });
            let _ = worker.await;
            let _ = acceptor.await;
            env.explore(false);
            drop(rx1_idle);
            let _ = echo;
        };
        let judge: Judge = Box::new(move |out: &Outcome| {
            let o = obs.lock().unwrap();
            let mut v = Verdict::default();
            v.findings.extend(panic_findings(out, "C03"));
            let (_l, lf) = ledger_findings(out, 0, max_ports, [false, false]);
            v.findings.extend(lf);
            let ok = o.done
                && o.exchanged.iter().filter(|e| *e == "ok").count() == 3
                && o.exchanged.contains(&"port3-sent".to_string())
                && o.exchanged.contains(&"port3-received".to_string());
            if let Some(e) = &o.err {
                v.fail("C03", "isolation-error", e.clone());
            } else if out.ending != Ending::Completed || !ok {
                v.fail(
                    "C03",
                    "port-blocked-by-other-port",
                    format!("ending {:?}; exchanges {:?}; blocked port had sent {} messages", out.ending, o.exchanged, o.blocked_sent),
                );
            }
            v.outcome = format!("{:?}|{}|{:?}", o.exchanged, o.blocked_sent, out.ending);
            v.nontrivial = o.blocked_sent >= 1;
            v
        });
        (Box::pin(root), judge)
    }
}

pub fn leak_scenarios(tier: Tier) -> Vec<Arc<dyn Scenario>> {
    let mut out: Vec<Arc<dyn Scenario>> = Vec::new();
    let link = LinkOpts { capacity: 1, deliver_cap: 1, eof_on_drop: false };
    let cfgs = [(cfg(4, 16, 16, 1, 1), cfg(4, 16, 16, 1, 1)), (cfg(8, 16, 16, 1, 1), cfg(4, 9, 16, 1, 1))];
    let max_p = if tier == Tier::Quick { 5 } else { 9 };
    // empty messages cost one credit each and must give it back like any other
    for (a, b) in &cfgs {
        for k in [1usize, 3, 8, 17] {
            let mut script = vec![Op::Send(0); k];
            script.push(Op::Send(3));
            out.push(Arc::new(LeakScenario { cfg_a: a.clone(), cfg_b: b.clone(), script: script.clone(), link, style: RecvStyle::AnyAfterCancel }));
            let mut script = vec![Op::Chunks(vec![2, 2], End::Finish); k.min(8)];
            script.push(Op::Send(3));
            out.push(Arc::new(LeakScenario { cfg_a: a.clone(), cfg_b: b.clone(), script, link, style: RecvStyle::AnyAfterCancel }));
        }
    }
    for (a, b) in &cfgs {
        let q = (b.receive_buffer / 4) as usize;
        for p in 0..max_p {
            // cancelled send while the path to the wire is blocked
            out.push(Arc::new(LeakScenario {
                cfg_a: a.clone(),
                cfg_b: b.clone(),
                script: vec![Op::Hold, Op::Send(q), Op::Send(q), Op::Send(q), Op::CancelSend(q, p), Op::Release, Op::Send(q)],
                link,
                style: RecvStyle::AnyAfterCancel,
            }));
            out.push(Arc::new(LeakScenario {
                cfg_a: a.clone(),
                cfg_b: b.clone(),
                script: vec![Op::Hold, Op::Send(q), Op::Send(1), Op::CancelSend(2 * q + 1, p), Op::Release, Op::Send(2)],
                link,
                style: RecvStyle::AnyAfterCancel,
            }));
            out.push(Arc::new(LeakScenario {
                cfg_a: a.clone(),
                cfg_b: b.clone(),
                script: vec![Op::Send(3), Op::CancelSend(7, p), Op::Send(1)],
                link,
                style: RecvStyle::AnyAfterCancel,
            }));
            out.push(Arc::new(LeakScenario {
                cfg_a: a.clone(),
                cfg_b: b.clone(),
                script: vec![Op::Hold, Op::Send(q), Op::Send(1), Op::Send(0), Op::CancelConnect(2, p), Op::Release, Op::Connect(1, true)],
                link,
                style: RecvStyle::AnyAfterCancel,
            }));
            out.push(Arc::new(LeakScenario {
                cfg_a: a.clone(),
                cfg_b: b.clone(),
                script: vec![Op::Hold, Op::Send(q), Op::Send(1), Op::CancelChunk(vec![q, q], 0, p), Op::Release, Op::Send(1)],
                link,
                style: RecvStyle::AnyAfterCancel,
            }));
        }
        // receiver-side cancellation while its credit return is stuck behind a full queue
        for p in 1..max_p.min(5) {
            for n in [1usize, q, 2 * q] {
                out.push(Arc::new(LeakScenario {
                    cfg_a: a.clone(),
                    cfg_b: b.clone(),
                    script: vec![Op::HoldRev, Op::Send(n), Op::Send(n), Op::Quiesce, Op::ReleaseRev, Op::Send(n), Op::Send(1)],
                    link,
                    style: RecvStyle::CancelEach(p),
                }));
            }
            // the receiving endpoint's own traffic keeps its send queue full while it must return credit
            for rb in [4u32, 8, 9] {
                let rbu = rb as usize;
                out.push(Arc::new(LeakScenario {
                    cfg_a: a.clone(),
                    cfg_b: cfg(4, rb, 16, 1, 1),
                    script: vec![
                        Op::HoldRev, Op::PeerSend(1), Op::PeerSend(1), Op::PeerSend(1), Op::Send(rbu), Op::Quiesce, Op::ReleaseRev,
                        Op::Send(1), Op::Send(rbu), Op::Send(1),
                    ],
                    link,
                    style: RecvStyle::CancelEach(p),
                }));
            }
            // tiny buffers: every consumed message triggers a credit return
            for rb in [4u32, 5, 7] {
                let ops: Vec<Op> = std::iter::once(Op::HoldRev)
                    .chain((0..rb as usize).map(|_| Op::Send(1)))
                    .chain([Op::Quiesce, Op::ReleaseRev, Op::Send(1), Op::Send(rb as usize), Op::Send(1)])
                    .collect();
                out.push(Arc::new(LeakScenario {
                    cfg_a: a.clone(),
                    cfg_b: cfg(4, rb, 16, 1, 1),
                    script: ops,
                    link,
                    style: RecvStyle::CancelEach(p),
                }));
            }
        }
        // try_send while the queue is full
        for n in [0usize, 1, 4, 5, 8] {
            out.push(Arc::new(LeakScenario {
                cfg_a: a.clone(),
                cfg_b: b.clone(),
                script: vec![Op::Hold, Op::Send(q), Op::Send(1), Op::TrySend(n), Op::TrySend(n), Op::Release, Op::Send(1)],
                link,
                style: RecvStyle::AnyAfterCancel,
            }));
            out.push(Arc::new(LeakScenario {
                cfg_a: a.clone(),
                cfg_b: b.clone(),
                script: vec![Op::TrySend(n), Op::TrySend(n), Op::TrySend(n), Op::Send(1)],
                link,
                style: RecvStyle::AnyAfterCancel,
            }));
        }
    }
    out
}

pub fn leak_core(_tier: Tier) -> Vec<Arc<dyn Scenario>> {
    let link = LinkOpts { capacity: 1, deliver_cap: 1, eof_on_drop: false };
    let (a, b) = (cfg(4, 16, 16, 1, 1), cfg(4, 8, 16, 1, 1));
    let scripts = vec![
        vec![Op::Send(4), Op::CancelSend(4, 1), Op::Send(4)],
        vec![Op::Send(5), Op::CancelSend(8, 2), Op::Send(3)],
        vec![Op::Hold, Op::Send(2), Op::Send(2), Op::Send(2), Op::CancelSend(2, 1), Op::Release, Op::Send(2)],
        vec![Op::TrySend(4), Op::TrySend(4), Op::Send(4)],
        vec![Op::Send(4), Op::CancelConnect(2, 1), Op::Send(1)],
        vec![Op::Send(8), Op::Send(8), Op::Send(1)],
    ];
    scripts
        .into_iter()
        .map(|s| Arc::new(LeakScenario { cfg_a: a.clone(), cfg_b: b.clone(), script: s, link, style: RecvStyle::AnyAfterCancel }) as Arc<dyn Scenario>)
        .collect()
}

pub fn connect_scenarios(tier: Tier) -> Vec<Arc<dyn Scenario>> {
    let mut out: Vec<Arc<dyn Scenario>> = Vec::new();
    let chunks: &[u32] = if tier == Tier::Quick { &[4, 8] } else { &[4, 5, 8, 12] };
    for &cs in chunks {
        for rb in 4..=17u32 {
            for pre in 0..8usize {
                for k in 1..=3usize {
                    out.push(Arc::new(ConnectScenario {
                        cfg_a: cfg(8, 16, 16, 1, 1),
                        cfg_b: cfg(cs, rb, 16, 1, 1),
                        pre,
                        k,
                    }));
                }
            }
        }
    }
    out
}

pub fn isolation_scenarios(_tier: Tier) -> Vec<Arc<dyn Scenario>> {
    let mut out: Vec<Arc<dyn Scenario>> = Vec::new();
    for mode in 0..4u8 {
        out.push(Arc::new(IsolationScenario { cfg_a: cfg(4, 8, 16, 1, 1), cfg_b: cfg(4, 8, 16, 1, 1), mode }));
        out.push(Arc::new(IsolationScenario { cfg_a: cfg(8, 16, 16, 2, 1), cfg_b: cfg(4, 5, 16, 1, 1), mode }));
        out.push(Arc::new(IsolationScenario { cfg_a: cfg(16, 16, 32, 1, 1), cfg_b: cfg(16, 16, 32, 1, 1), mode }));
    }
    out
}

pub fn all_scenarios(tier: Tier) -> Vec<Arc<dyn Scenario>> {
    let mut v = leak_scenarios(tier);
    v.extend(leak_core(tier));
    v.extend(connect_scenarios(tier));
    v.extend(isolation_scenarios(tier));
    v
}

pub fn run(tier: Tier, seed: u64) -> i32 {
    let mut rep = Report::new("C03", tier, seed);
    let known = known_sigs("C03");
    let q = tier == Tier::Quick;
    let p0 = Params { max_dev: 0, seeds: vec![seed], time_limit: Duration::from_secs(if q { 15 } else { 120 }), ..Default::default() };
    rep.add("(a) leak grid d=0: cancel point x blocked-queue state x try_send", explore("C03", leak_scenarios(tier), p0.clone(), &known));
    let p = Params {
        max_dev: if q { 2 } else { 3 },
        seeds: vec![seed, seed + 1],
        time_limit: Duration::from_secs(if q { 15 } else { 400 }),
        ..Default::default()
    };
    rep.add("(a) leak core under schedule exploration", explore("C03", leak_core(tier), p, &known));
    let p = Params { max_dev: 1, seeds: vec![seed], time_limit: Duration::from_secs(if q { 10 } else { 300 }), ..Default::default() };
    rep.add("(b) connect(k ports) x receive_buffer 4..=17 x residue 0..7", explore("C03", connect_scenarios(tier), p, &known));
    let p = Params {
        max_dev: 2,
        seeds: vec![seed],
        time_limit: Duration::from_secs(if q { 10 } else { 300 }),
        ..Default::default()
    };
    rep.add("(c) isolation of a stalled port", explore("C03", isolation_scenarios(tier), p, &known));
    rep.rule = "a case = (operation script incl. cancel point / held transport / try_send, cfg pair, schedule deviation list); distinct = distinct (op results, ledger pool, probe result, ending); non-trivial = a cancellation landed on a pending operation, try_send failed, several PortData frames were needed, or the stalled port was really blocked".into();
    rep.assumptions = vec![
        "liveness judged at quiescence of a healthy transport under the paused virtual clock".into(),
        "credit pool derived from the independent wire ledger; the probe holds back the reverse direction so no new credit arrives".into(),
        "select! branch order fixed per seed".into(),
    ];
    rep.finish()
}
