//! C11 for the typed channels built on ports: close / receiver drop / sender drop / connection cut
//! at every position of a stream, on base, mpsc (remote sender, remote receiver, several senders),
//! lr (either half remote), oneshot and bin channels.

use async_trait::async_trait;
use bytes::Bytes;
use futures::future::BoxFuture;
use remoc::{
    chmux,
    rch::{self, ClosedReason, Sending, SendingError, base, bin, lr, mpsc, oneshot},
};
use serde::{Deserialize, Serialize};
use std::{collections::BTreeMap, sync::Arc, time::Duration};

use super::c04::{base_pair, base_pair_named, typed_cfg};
use crate::{
    net::LinkOpts,
    report::Tier,
    util::{panic_findings, shared},
    world::{Ending, Env, Judge, Outcome, Scenario, Verdict},
};

#[derive(Serialize, Deserialize, Clone, Debug, PartialEq)]
pub struct Val {
    pub sender: u8,
    pub seq: u32,
    pub pad: Vec<u8>,
}

fn val(sender: u8, seq: u32, big: bool) -> Val {
    if big {
        // every value spans several chunks, four of them exceed the receive buffer
        return Val { sender, seq, pad: (0..70).map(|i| (i as u32 * 5 + seq + sender as u32) as u8).collect() };
    }
    // value 2 spans several chunks (chunk size 32) but stays below max_data_size
    let n = if seq == 2 { 70 } else { 3 };
    Val { sender, seq, pad: (0..n).map(|i| (i as u32 * 5 + seq + sender as u32) as u8).collect() }
}

fn val_ok(v: &Val, big: bool) -> bool {
    *v == val(v.sender, v.seq, big)
}

#[derive(Serialize, Deserialize)]
pub enum Carrier {
    Val(Val),
    MpscTx(mpsc::Sender<Val>),
    MpscRx(mpsc::Receiver<Val>),
    LrTx(lr::Sender<Val>),
    LrRx(lr::Receiver<Val>),
    OneTx(oneshot::Sender<Val>),
    OneRx(oneshot::Receiver<Val>),
    BinTx(bin::Sender),
    BinRx(bin::Receiver),
}

#[derive(Debug, Clone, Copy, PartialEq, Eq, Hash)]
pub enum TChan {
    Base,
    /// receiver stays where the channel was made, the sender travels
    MpscTxAway,
    /// the receiver travels
    MpscRxAway,
    /// a sender next to the receiver and a clone that travelled
    MpscLocalAndAway,
    /// two clones that travelled
    MpscTwoAway,
    LrTxAway,
    LrRxAway,
    OneTxAway,
    OneRxAway,
    BinTxAway,
    BinRxAway,
}

#[derive(Debug, Clone, Copy, PartialEq, Eq, Hash)]
pub enum Ev {
    CloseRx,
    DropRx,
    DropTx,
    Cut,
}

/// What a send attempt led to.
#[derive(Debug, Clone, PartialEq, Eq)]
enum SendOut {
    /// accepted; for queued channels the Sending handle's result is filled in later
    Accepted,
    Refused(String),
}

#[async_trait]
trait TxH: Send {
    async fn send(&mut self, v: Val) -> (SendOut, Option<Sending<Val>>);
    /// waits until the channel reports closed; returns the reason it gives, if it has one
    async fn closed(&mut self) -> Option<String>;
    /// whether this sender is on the far side of the connection from the receiver
    fn remote(&self) -> bool;
}

enum RecvOut {
    Val(Val),
    End,
    Err(String, bool),
}

#[async_trait]
trait RxH: Send {
    async fn recv(&mut self) -> RecvOut;
    async fn close(&mut self);
}

fn reason(r: Option<ClosedReason>) -> String {
    match r {
        Some(ClosedReason::Closed) => "closed".into(),
        Some(ClosedReason::Dropped) => "dropped".into(),
        Some(ClosedReason::Failed) => "failed".into(),
        None => "none".into(),
    }
}

fn chmux_class(e: &chmux::SendError) -> String {
    match e {
        chmux::SendError::Closed { gracefully: true } => "closed".into(),
        chmux::SendError::Closed { gracefully: false } => "dropped".into(),
        chmux::SendError::ChMux => "failed".into(),
    }
}

fn base_kind_class(k: &base::SendErrorKind) -> String {
    match k {
        base::SendErrorKind::Send(e) => chmux_class(e),
        other => format!("item:{other:?}").chars().take(40).collect(),
    }
}

struct BaseTx(base::Sender<Carrier>, bool);
#[async_trait]
impl TxH for BaseTx {
    async fn send(&mut self, v: Val) -> (SendOut, Option<Sending<Val>>) {
        match self.0.send(Carrier::Val(v)).await {
            Ok(()) => (SendOut::Accepted, None),
            Err(e) => (SendOut::Refused(base_kind_class(&e.kind)), None),
        }
    }
    async fn closed(&mut self) -> Option<String> {
        self.0.closed().await;
        None
    }
    fn remote(&self) -> bool {
        self.1
    }
}

struct MpscTx(mpsc::Sender<Val>, bool);
#[async_trait]
impl TxH for MpscTx {
    async fn send(&mut self, v: Val) -> (SendOut, Option<Sending<Val>>) {
        match self.0.send(v).await {
            Ok(s) => (SendOut::Accepted, Some(s)),
            Err(e) => (SendOut::Refused(reason(e.closed_reason())), None),
        }
    }
    async fn closed(&mut self) -> Option<String> {
        self.0.closed().await;
        Some(reason(self.0.closed_reason()))
    }
    fn remote(&self) -> bool {
        self.1
    }
}

struct LrTx(lr::Sender<Val>);
#[async_trait]
impl TxH for LrTx {
    async fn send(&mut self, v: Val) -> (SendOut, Option<Sending<Val>>) {
        match self.0.send(v).await {
            Ok(()) => (SendOut::Accepted, None),
            Err(e) => (
                SendOut::Refused(match &e.kind {
                    lr::SendErrorKind::Send(e) => chmux_class(e),
                    lr::SendErrorKind::Connect(_) => "failed".into(),
                    other => format!("item:{other:?}").chars().take(40).collect(),
                }),
                None,
            ),
        }
    }
    async fn closed(&mut self) -> Option<String> {
        match self.0.closed().await {
            Ok(c) => {
                c.await;
                None
            }
            Err(_) => Some("failed".into()),
        }
    }
    fn remote(&self) -> bool {
        true
    }
}

struct OneTx(Option<oneshot::Sender<Val>>);
#[async_trait]
impl TxH for OneTx {
    async fn send(&mut self, v: Val) -> (SendOut, Option<Sending<Val>>) {
        match self.0.take() {
            Some(tx) => {
                // the reason has to be read before the sender is consumed
                let r = tx.closed_reason();
                match tx.send(v) {
                    Ok(s) => (SendOut::Accepted, Some(s)),
                    Err(oneshot::SendError::Closed(_)) => (SendOut::Refused(if r.is_some() { reason(r) } else { "closed".into() }), None),
                    Err(oneshot::SendError::Failed) => (SendOut::Refused(if r.is_some() { reason(r) } else { "failed".into() }), None),
                }
            }
            None => (SendOut::Refused("used".into()), None),
        }
    }
    async fn closed(&mut self) -> Option<String> {
        match &self.0 {
            Some(tx) => {
                tx.closed().await;
                Some(reason(tx.closed_reason()))
            }
            None => None,
        }
    }
    fn remote(&self) -> bool {
        true
    }
}

struct PortTx(chmux::Sender);
#[async_trait]
impl TxH for PortTx {
    async fn send(&mut self, v: Val) -> (SendOut, Option<Sending<Val>>) {
        let mut bytes = vec![v.sender];
        bytes.extend_from_slice(&v.seq.to_le_bytes());
        bytes.extend_from_slice(&v.pad);
        match self.0.send(Bytes::from(bytes)).await {
            Ok(()) => (SendOut::Accepted, None),
            Err(e) => (SendOut::Refused(chmux_class(&e)), None),
        }
    }
    async fn closed(&mut self) -> Option<String> {
        self.0.closed().await;
        None
    }
    fn remote(&self) -> bool {
        true
    }
}

struct BaseRx(base::Receiver<Carrier>);
#[async_trait]
impl RxH for BaseRx {
    async fn recv(&mut self) -> RecvOut {
        match self.0.recv().await {
            Ok(Some(Carrier::Val(v))) => RecvOut::Val(v),
            Ok(Some(_)) => RecvOut::Err("unexpected carrier".into(), true),
            Ok(None) => RecvOut::End,
            Err(e) => RecvOut::Err(format!("{e:?}").chars().take(60).collect(), e.is_final()),
        }
    }
    async fn close(&mut self) {
        self.0.close().await
    }
}

struct MpscRx(mpsc::Receiver<Val>);
#[async_trait]
impl RxH for MpscRx {
    async fn recv(&mut self) -> RecvOut {
        match self.0.recv().await {
            Ok(Some(v)) => RecvOut::Val(v),
            Ok(None) => RecvOut::End,
            Err(e) => RecvOut::Err(format!("{e:?}").chars().take(60).collect(), e.is_final()),
        }
    }
    async fn close(&mut self) {
        self.0.close()
    }
}

struct LrRx(lr::Receiver<Val>);
#[async_trait]
impl RxH for LrRx {
    async fn recv(&mut self) -> RecvOut {
        match self.0.recv().await {
            Ok(Some(v)) => RecvOut::Val(v),
            Ok(None) => RecvOut::End,
            Err(e) => RecvOut::Err(format!("{e:?}").chars().take(60).collect(), e.is_final()),
        }
    }
    async fn close(&mut self) {
        self.0.close().await
    }
}

struct OneRx(Option<oneshot::Receiver<Val>>, bool);
#[async_trait]
impl RxH for OneRx {
    async fn recv(&mut self) -> RecvOut {
        if self.1 {
            return RecvOut::End;
        }
        match self.0.as_mut() {
            Some(rx) => match rx.await {
                Ok(v) => {
                    self.1 = true;
                    RecvOut::Val(v)
                }
                Err(oneshot::RecvError::Closed) => RecvOut::Err("Closed".into(), true),
                Err(e) => RecvOut::Err(format!("{e:?}").chars().take(60).collect(), true),
            },
            None => RecvOut::End,
        }
    }
    async fn close(&mut self) {
        if let Some(rx) = self.0.as_mut() {
            rx.close()
        }
    }
}

struct PortRx(chmux::Receiver);
#[async_trait]
impl RxH for PortRx {
    async fn recv(&mut self) -> RecvOut {
        match self.0.recv().await {
            Ok(Some(b)) => {
                let b = Bytes::from(b);
                if b.len() >= 5 {
                    RecvOut::Val(Val { sender: b[0], seq: u32::from_le_bytes([b[1], b[2], b[3], b[4]]), pad: b[5..].to_vec() })
                } else {
                    RecvOut::Err("short payload".into(), true)
                }
            }
            Ok(None) => RecvOut::End,
            Err(e) => RecvOut::Err(format!("{e:?}").chars().take(60).collect(), true),
        }
    }
    async fn close(&mut self) {
        self.0.close().await
    }
}

#[derive(Default)]
struct SenderLog {
    remote: bool,
    /// per value: (seq, send outcome, Sending handle outcome)
    sends: Vec<(u32, SendOut, Option<String>)>,
    /// result of a send attempted after everything settled
    probe: Option<SendOut>,
    closed_resolved: Option<bool>,
    closed_reason: Option<String>,
    dropped: bool,
}

#[derive(Default)]
struct TObs {
    err: Option<String>,
    senders: BTreeMap<u8, SenderLog>,
    received: Vec<Val>,
    recv_errors: Vec<String>,
    recv_end: Option<String>,
    event_done: bool,
    /// number of values the receiver had obtained when its event happened
    event_at: Option<usize>,
}

pub struct TypedCloseScenario {
    pub chan: TChan,
    pub ev: Ev,
    /// values per sender before the event
    pub after: usize,
    /// the event happens when everything sent before it has been delivered, and later sends start
    /// only after it has become observable; otherwise everything runs concurrently
    pub settle: bool,
    pub sched: bool,
    /// 2 = the travelling half is sent on from the second endpoint to a third one (forwarding)
    pub hops: u8,
    /// racing mode with large values: after `after` values the receiver stops consuming until nothing else
    /// can move (senders and forwarders are then blocked on flow credit), and only then acts
    pub stall: bool,
}

const N: u32 = 4;

impl Scenario for TypedCloseScenario {
    fn id(&self) -> String {
        format!("c11t/{:?}/{:?}/after{}/settle{}/s{}/h{}/st{}", self.chan, self.ev, self.after, self.settle as u8, self.sched as u8, self.hops, self.stall as u8)
    }

    fn start(&self, env: Env) -> (BoxFuture<'static, ()>, Judge) {
        let obs = shared(TObs::default());
        let o2 = obs.clone();
        let (chan, ev, after, settle, sched, hops, stall) = (self.chan, self.ev, self.after, self.settle, self.sched, self.hops, self.stall);
        let root = async move {
            env.explore(false);
            let link = LinkOpts { capacity: 2, deliver_cap: 2, eof_on_drop: false };
            let r = base_pair::<Carrier, Carrier, Carrier, Carrier>(&env, typed_cfg(), typed_cfg(), link).await;
            let ((mut a_tx, a_rx, ca, la), (b_tx, mut b_rx, cb, lb)) = match r {
                Ok(x) => x,
                Err(e) => {
                    o2.lock().unwrap().err = Some(e);
                    return;
                }
            };
            // optional second connection B2 - C for forwarded halves
            let mut second = None;
            if hops == 2 {
                match base_pair_named::<Carrier, Carrier, (), ()>(&env, "B2", 3, "C", 4, typed_cfg(), typed_cfg(), link).await {
                    Ok(((t, _r0, k1, k2), (_t0, r, k3, k4))) => second = Some((t, r, (k1, k2, k3, k4, _r0, _t0))),
                    Err(e) => {
                        o2.lock().unwrap().err = Some(e);
                        return;
                    }
                }
            }
            let far: u8 = if hops == 2 { 4 } else { 2 };
            // ships one carrier from A to B, and on to C when there are two hops (concurrently sent and received)
            macro_rules! ship {
                ($c:expr) => {{
                    let (s, r) = tokio::join!(a_tx.send($c), b_rx.recv());
                    if let Err(e) = s {
                        o2.lock().unwrap().err = Some(format!("ship: {e}"));
                        return;
                    }
                    let c1 = match r {
                        Ok(Some(c)) => c,
                        other => {
                            o2.lock().unwrap().err = Some(format!("ship recv: {:?}", other.map(|_| ()).map_err(|e| e.to_string())));
                            return;
                        }
                    };
                    match second.as_mut() {
                        None => c1,
                        Some((t2, r2, _)) => {
                            let (s, r) = tokio::join!(t2.send(c1), r2.recv());
                            if let Err(e) = s {
                                o2.lock().unwrap().err = Some(format!("ship 2: {e}"));
                                return;
                            }
                            match r {
                                Ok(Some(c)) => c,
                                other => {
                                    o2.lock().unwrap().err = Some(format!("ship 2 recv: {:?}", other.map(|_| ()).map_err(|e| e.to_string())));
                                    return;
                                }
                            }
                        }
                    }
                }};
            }
            // (sender id, handle, tag of the endpoint it lives on)
            let mut txs: Vec<(u8, Box<dyn TxH>, u8)> = Vec::new();
            let rx: Box<dyn RxH>;
            let rx_tag: u8;
            let mut keep: Vec<Box<dyn std::any::Any + Send>> = Vec::new();
            match chan {
                TChan::Base => {
                    txs.push((0, Box::new(BaseTx(a_tx, true)), 1));
                    rx = Box::new(BaseRx(b_rx));
                    rx_tag = 2;
                    keep.push(Box::new((a_rx, b_tx)));
                }
                TChan::MpscTxAway | TChan::MpscLocalAndAway | TChan::MpscTwoAway => {
                    let (tx, r) = mpsc::channel::<Val, remoc::codec::Default>(2);
                    if chan == TChan::MpscLocalAndAway {
                        txs.push((1, Box::new(MpscTx(tx.clone(), false)), 1));
                    }
                    if chan == TChan::MpscTwoAway {
                        match ship!(Carrier::MpscTx(tx.clone())) {
                            Carrier::MpscTx(t) => txs.push((1, Box::new(MpscTx(t, true)), far)),
                            _ => return,
                        }
                    }
                    match ship!(Carrier::MpscTx(tx)) {
                        Carrier::MpscTx(t) => txs.push((0, Box::new(MpscTx(t, true)), far)),
                        _ => return,
                    }
                    rx = Box::new(MpscRx(r));
                    rx_tag = 1;
                    keep.push(Box::new((a_tx, a_rx, b_tx, b_rx)));
                }
                TChan::MpscRxAway => {
                    let (tx, r) = mpsc::channel::<Val, remoc::codec::Default>(2);
                    match ship!(Carrier::MpscRx(r)) {
                        Carrier::MpscRx(r) => rx = Box::new(MpscRx(r)),
                        _ => return,
                    }
                    rx_tag = far;
                    txs.push((0, Box::new(MpscTx(tx, true)), 1));
                    keep.push(Box::new((a_tx, a_rx, b_tx, b_rx)));
                }
                TChan::LrTxAway => {
                    let (tx, r) = lr::channel::<Val, remoc::codec::Default>();
                    match ship!(Carrier::LrTx(tx)) {
                        Carrier::LrTx(t) => txs.push((0, Box::new(LrTx(t)), far)),
                        _ => return,
                    }
                    rx = Box::new(LrRx(r));
                    rx_tag = 1;
                    keep.push(Box::new((a_tx, a_rx, b_tx, b_rx)));
                }
                TChan::LrRxAway => {
                    let (tx, r) = lr::channel::<Val, remoc::codec::Default>();
                    match ship!(Carrier::LrRx(r)) {
                        Carrier::LrRx(r) => rx = Box::new(LrRx(r)),
                        _ => return,
                    }
                    rx_tag = far;
                    txs.push((0, Box::new(LrTx(tx)), 1));
                    keep.push(Box::new((a_tx, a_rx, b_tx, b_rx)));
                }
                TChan::OneTxAway => {
                    let (tx, r) = oneshot::channel::<Val, remoc::codec::Default>();
                    match ship!(Carrier::OneTx(tx)) {
                        Carrier::OneTx(t) => txs.push((0, Box::new(OneTx(Some(t))), far)),
                        _ => return,
                    }
                    rx = Box::new(OneRx(Some(r), false));
                    rx_tag = 1;
                    keep.push(Box::new((a_tx, a_rx, b_tx, b_rx)));
                }
                TChan::OneRxAway => {
                    let (tx, r) = oneshot::channel::<Val, remoc::codec::Default>();
                    match ship!(Carrier::OneRx(r)) {
                        Carrier::OneRx(r) => rx = Box::new(OneRx(Some(r), false)),
                        _ => return,
                    }
                    rx_tag = far;
                    txs.push((0, Box::new(OneTx(Some(tx))), 1));
                    keep.push(Box::new((a_tx, a_rx, b_tx, b_rx)));
                }
                TChan::BinTxAway | TChan::BinRxAway => {
                    let (tx, r) = bin::channel();
                    let (tx, r, tx_tag, r_tag) = if chan == TChan::BinTxAway {
                        match ship!(Carrier::BinTx(tx)) {
                            Carrier::BinTx(t) => (t, r, far, 1),
                            _ => return,
                        }
                    } else {
                        match ship!(Carrier::BinRx(r)) {
                            Carrier::BinRx(rr) => (tx, rr, 1, far),
                            _ => return,
                        }
                    };
                    let (t, r) = tokio::join!(tx.into_inner(), r.into_inner());
                    match (t, r) {
                        (Ok(t), Ok(r)) => {
                            txs.push((0, Box::new(PortTx(t)), tx_tag));
                            rx = Box::new(PortRx(r));
                            rx_tag = r_tag;
                        }
                        (t, r) => {
                            o2.lock().unwrap().err = Some(format!("bin into_inner: {:?} {:?}", t.err().map(|e| e.to_string()), r.err().map(|e| e.to_string())));
                            return;
                        }
                    }
                    keep.push(Box::new((a_tx, a_rx, b_tx, b_rx)));
                }
            }
            env.quiesce().await;
            for (id, t, _) in &txs {
                o2.lock().unwrap().senders.insert(*id, SenderLog { remote: t.remote(), ..Default::default() });
            }
            let n_values: u32 = if matches!(chan, TChan::OneTxAway | TChan::OneRxAway) { 1 } else { N };
            let after = after.min(n_values as usize);
            env.explore(sched);

            // gates: senders stop after `after` values until released (settled mode)
            let (gate_tx, gate_rx) = tokio::sync::watch::channel(0u8);
            let (cmd_tx, mut cmd_rx) = tokio::sync::mpsc::unbounded_channel::<()>();
            let mut sender_tasks = Vec::new();
            for (id, mut tx, tag) in txs {
                let o3 = o2.clone();
                let mut gate = gate_rx.clone();
                sender_tasks.push(env.spawn(&format!("sender{id}"), tag, async move {
                    let mut handles: Vec<(usize, Sending<Val>)> = Vec::new();
                    let mut refused = false;
                    for seq in 0..n_values {
                        if seq as usize == after {
                            if ev == Ev::DropTx {
                                break;
                            }
                            if settle {
                                while *gate.borrow() < 1 {
                                    if gate.changed().await.is_err() {
                                        break;
                                    }
                                }
                            }
                        }
                        let (out, h) = tx.send(val(id, seq, stall)).await;
                        let stop = matches!(out, SendOut::Refused(_));
                        let idx = {
                            let mut o = o3.lock().unwrap();
                            let l = o.senders.get_mut(&id).unwrap();
                            l.sends.push((seq, out, None));
                            l.sends.len() - 1
                        };
                        if let Some(h) = h {
                            handles.push((idx, h));
                        }
                        if stop {
                            refused = true;
                            break;
                        }
                    }
                    if ev == Ev::DropTx {
                        o3.lock().unwrap().senders.get_mut(&id).unwrap().dropped = true;
                        drop(tx);
                        // the handles stay: they must still resolve
                        for (idx, h) in handles {
                            let r = match tokio::time::timeout(Duration::from_secs(60), h).await {
                                Ok(Ok(())) => "ok".to_string(),
                                Ok(Err(SendingError::Dropped)) => "dropped".to_string(),
                                Ok(Err(SendingError::Send(e))) => format!("send-error:{}", base_kind_class(&e.kind)),
                                Err(_) => "hang".to_string(),
                            };
                            o3.lock().unwrap().senders.get_mut(&id).unwrap().sends[idx].2 = Some(r);
                        }
                        return;
                    }
                    // wait until everything has settled, then look at the handles and probe
                    while *gate.borrow() < 2 {
                        if gate.changed().await.is_err() {
                            break;
                        }
                    }
                    for (idx, h) in handles {
                        let r = match tokio::time::timeout(Duration::from_secs(60), h).await {
                            Ok(Ok(())) => "ok".to_string(),
                            Ok(Err(SendingError::Dropped)) => "dropped".to_string(),
                            Ok(Err(SendingError::Send(e))) => format!("send-error:{}", base_kind_class(&e.kind)),
                            Err(_) => "hang".to_string(),
                        };
                        o3.lock().unwrap().senders.get_mut(&id).unwrap().sends[idx].2 = Some(r);
                    }
                    let resolved = tokio::time::timeout(Duration::from_secs(60), tx.closed()).await;
                    {
                        let mut o = o3.lock().unwrap();
                        let l = o.senders.get_mut(&id).unwrap();
                        l.closed_resolved = Some(resolved.is_ok());
                        l.closed_reason = resolved.ok().flatten();
                    }
                    if !refused {
                        let (out, _h) = tx.send(val(id, 99, stall)).await;
                        let mut o = o3.lock().unwrap();
                        let l = o.senders.get_mut(&id).unwrap();
                        l.sends.push((99, out.clone(), None));
                        l.probe = Some(out);
                    }
                    drop(tx);
                }));
            }
            let o4 = o2.clone();
            let env_rx = env.clone();
            let receiver = env.spawn("receiver", rx_tag, async move {
                let mut rx = Some(rx);
                let mut got = 0usize;
                let mut did = false;
                loop {
                    // unsettled receiver-side events trigger on the number of values obtained
                    let now = !settle && got >= after;
                    if !did && matches!(ev, Ev::CloseRx | Ev::DropRx) && now {
                        did = true;
                        if stall {
                            env_rx.quiesce().await;
                        }
                        {
                            let mut o = o4.lock().unwrap();
                            o.event_done = true;
                            o.event_at = Some(got);
                        }
                        if ev == Ev::CloseRx {
                            rx.as_mut().unwrap().close().await;
                        } else {
                            rx = None;
                            break;
                        }
                    }
                    let r = if settle && !did && matches!(ev, Ev::CloseRx | Ev::DropRx) {
                        tokio::select! {
                            biased;
                            _ = cmd_rx.recv() => None,
                            r = rx.as_mut().unwrap().recv() => Some(r),
                        }
                    } else {
                        Some(rx.as_mut().unwrap().recv().await)
                    };
                    match r {
                        None => {
                            did = true;
                            {
                                let mut o = o4.lock().unwrap();
                                o.event_done = true;
                                o.event_at = Some(got);
                            }
                            if ev == Ev::CloseRx {
                                rx.as_mut().unwrap().close().await;
                            } else {
                                rx = None;
                                break;
                            }
                        }
                        Some(RecvOut::Val(v)) => {
                            got += 1;
                            o4.lock().unwrap().received.push(v);
                        }
                        Some(RecvOut::End) => {
                            o4.lock().unwrap().recv_end = Some("eos".into());
                            break;
                        }
                        Some(RecvOut::Err(e, fin)) => {
                            let many = o4.lock().unwrap().recv_errors.len() > 20;
                            o4.lock().unwrap().recv_errors.push(e);
                            if fin || many {
                                o4.lock().unwrap().recv_end = Some("final-error".into());
                                break;
                            }
                        }
                    }
                }
                drop(rx);
            });

            // orchestration
            if settle {
                env.quiesce().await;
                match ev {
                    Ev::CloseRx | Ev::DropRx => {
                        let _ = cmd_tx.send(());
                    }
                    Ev::Cut => {
                        env.dir(0, 0).cut();
                        env.dir(0, 1).cut();
                        o2.lock().unwrap().event_done = true;
                    }
                    Ev::DropTx => o2.lock().unwrap().event_done = true,
                }
                env.quiesce().await;
            } else if ev == Ev::Cut {
                // cut as soon as `after` values have been received
                for _ in 0..20 {
                    if o2.lock().unwrap().received.len() >= after {
                        break;
                    }
                    env.quiesce().await;
                }
                env.dir(0, 0).cut();
                env.dir(0, 1).cut();
                o2.lock().unwrap().event_done = true;
            } else if ev == Ev::DropTx {
                o2.lock().unwrap().event_done = true;
            }
            let _ = gate_tx.send(1);
            env.quiesce().await;
            // second release: probes
            let _ = gate_tx.send(2);
            env.explore(false);
            for t in sender_tasks {
                let _ = tokio::time::timeout(Duration::from_secs(600), t).await;
            }
            env.quiesce().await;
            if tokio::time::timeout(Duration::from_secs(600), receiver).await.is_err() {
                o2.lock().unwrap().recv_end = Some("hang".into());
            }
            drop(keep);
            drop(second);
            drop((ca, la, cb, lb));
        };
        let judge: Judge = Box::new(move |out: &Outcome| {
            let o = obs.lock().unwrap();
            let mut v = Verdict::default();
            v.findings.extend(panic_findings(out, "C11"));
            let tag = format!("{chan:?}:{ev:?}");
            if let Some(e) = &o.err {
                v.fail("C11", "typed-setup-failed", e.clone());
            } else if out.ending != Ending::Completed {
                v.fail("C11", format!("typed-stuck:{tag}"), format!("{:?}", out.ending));
            } else {
                // through a forwarding endpoint a Sending handle only says that the forwarder got the value, and
                // the forwarder re-classifies what it sees downstream; ports / bin channels are forwarded by
                // chmux::forward, which keeps delivering after a graceful close
                let strict_delivery = hops == 1 || matches!(chan, TChan::BinTxAway | TChan::BinRxAway);
                let strict_class = hops == 1;
                let expected_reason = match ev {
                    Ev::CloseRx => "closed",
                    Ev::DropRx => "dropped",
                    Ev::Cut => "failed",
                    Ev::DropTx => "",
                };
                for v0 in &o.received {
                    if !val_ok(v0, stall) {
                        v.fail("C11", format!("typed-value-corrupted:{tag}"), format!("{v0:?}"));
                    }
                }
                for (id, l) in &o.senders {
                    let accepted: Vec<u32> = l.sends.iter().filter(|s| s.1 == SendOut::Accepted).map(|s| s.0).collect();
                    let got: Vec<u32> = o.received.iter().filter(|x| x.sender == *id).map(|x| x.seq).collect();
                    let ctx = format!("sender {id} ({}): sends {:?}, probe {:?}, closed() {:?} reason {:?}; received from it {got:?}; receiver end {:?} errors {:?}; event at {:?}", if l.remote { "remote" } else { "local" }, l.sends, l.probe, l.closed_resolved, l.closed_reason, o.recv_end, o.recv_errors, o.event_at);
                    // received is a prefix of accepted: in order, no gaps, no duplicates
                    if !accepted.starts_with(&got) {
                        v.fail("C11", format!("typed-received-not-prefix:{tag}"), ctx.clone());
                    }
                    let missing: Vec<&(u32, SendOut, Option<String>)> = l.sends.iter().filter(|s| s.1 == SendOut::Accepted && !got.contains(&s.0)).collect();
                    match ev {
                        Ev::DropTx => {
                            if !missing.is_empty() {
                                v.fail("C11", format!("typed-eos-with-values-missing:{tag}"), ctx.clone());
                            }
                        }
                        Ev::CloseRx if !strict_delivery => {
                            for m in &missing {
                                if m.2.as_deref() == Some("hang") {
                                    v.fail("C11", format!("typed-sending-handle-hangs:{tag}"), ctx.clone());
                                }
                            }
                        }
                        Ev::CloseRx => {
                            // completed transmissions are delivered; what is not delivered was queued and is reported dropped
                            for m in &missing {
                                match m.2.as_deref() {
                                    Some("ok") => v.fail("C11", format!("typed-completed-send-lost-on-close:{tag}"), ctx.clone()),
                                    Some("hang") => v.fail("C11", format!("typed-sending-handle-hangs:{tag}"), ctx.clone()),
                                    Some(_) => {}
                                    None => {
                                        // channels without handles: send() returning Ok means the transmission completed
                                        v.fail("C11", format!("typed-completed-send-lost-on-close:{tag}"), ctx.clone())
                                    }
                                }
                            }
                        }
                        Ev::DropRx | Ev::Cut => {
                            for m in &missing {
                                if m.2.as_deref() == Some("hang") {
                                    v.fail("C11", format!("typed-sending-handle-hangs:{tag}"), ctx.clone());
                                }
                            }
                        }
                    }
                    // handles of delivered values never report a failure
                    for s in &l.sends {
                        if got.contains(&s.0) && matches!(s.2.as_deref(), Some(x) if x != "ok") && ev != Ev::Cut {
                            v.fail("C11", format!("typed-delivered-but-reported-failed:{tag}"), ctx.clone());
                        }
                    }
                    if ev != Ev::DropTx && (l.remote || ev != Ev::Cut) {
                        // the condition becomes observable at the sender, with the right classification
                        if l.closed_resolved == Some(false) {
                            v.fail("C11", format!("typed-not-observable-at-sender:{tag}"), ctx.clone());
                        }
                        if let (Some(r), true) = (&l.closed_reason, strict_class) {
                            if r != expected_reason {
                                v.fail("C11", format!("typed-wrong-closed-reason:{tag}:{r}"), ctx.clone());
                            }
                        }
                        let refusal = l.sends.iter().find_map(|s| if let SendOut::Refused(c) = &s.1 { Some(c.clone()) } else { None }).or(match &l.probe {
                            Some(SendOut::Refused(c)) => Some(c.clone()),
                            _ => None,
                        });
                        match (&refusal, &l.probe) {
                            // the property speaks of the remote sender: a sender next to the receiver keeps working after
                            // close() for as long as a remote clone's forwarding task holds the queue open
                            (None, Some(SendOut::Accepted)) if l.remote || ev != Ev::CloseRx => v.fail("C11", format!("typed-send-succeeds-after-event:{tag}"), ctx.clone()),
                            (Some(c), _) => {
                                // a refusal that came while the event was still racing with sends may carry an earlier
                                // classification only if it is the same one
                                if strict_class && c != expected_reason && c != "used" {
                                    v.fail("C11", format!("typed-wrong-classification:{tag}:{c}"), ctx.clone());
                                }
                            }
                            _ => {}
                        }
                    }
                }
                // the receiver's view
                match ev {
                    Ev::DropTx => {
                        let one = matches!(chan, TChan::OneTxAway | TChan::OneRxAway);
                        let all_sent = o.senders.values().all(|l| !l.sends.is_empty());
                        if one && !all_sent {
                            // sender dropped without sending: the receiver must learn it as Closed
                            if o.recv_errors.first().map(|s| s.as_str()) != Some("Closed") {
                                v.fail("C11", format!("typed-oneshot-drop-not-reported:{tag}"), format!("{:?} {:?}", o.recv_errors, o.recv_end));
                            }
                        } else if o.recv_end.as_deref() != Some("eos") {
                            v.fail("C11", format!("typed-no-eos-after-sender-drop:{tag}"), format!("end {:?} errors {:?} received {:?}", o.recv_end, o.recv_errors, o.received.len()));
                        }
                    }
                    Ev::CloseRx => {
                        if o.recv_end.as_deref() == Some("hang") {
                            v.fail("C11", format!("typed-receiver-hangs-after-close:{tag}"), format!("{:?}", o.recv_errors));
                        }
                    }
                    Ev::Cut => {
                        let all_got = o.senders.iter().all(|(id, l)| {
                            let acc = l.sends.iter().filter(|s| s.1 == SendOut::Accepted).count();
                            o.received.iter().filter(|x| x.sender == *id).count() == acc
                        });
                        let remote_rx = o.senders.values().any(|l| l.remote);
                        if remote_rx && o.recv_end.as_deref() == Some("eos") && !all_got {
                            v.fail("C11", format!("typed-eos-after-connection-failure:{tag}"), format!("received {:?}", o.received.len()));
                        }
                        if o.recv_end.as_deref() == Some("hang") {
                            v.fail("C11", format!("typed-receiver-hangs-after-cut:{tag}"), format!("{:?}", o.recv_errors));
                        }
                    }
                    Ev::DropRx => {}
                }
            }
            v.outcome = format!(
                "{:?}|{:?}|{:?}|{}",
                o.senders.iter().map(|(i, l)| (*i, l.sends.iter().map(|s| (matches!(s.1, SendOut::Accepted), s.2.clone())).collect::<Vec<_>>(), l.probe.clone(), l.closed_reason.clone())).collect::<Vec<_>>(),
                o.received.iter().map(|x| (x.sender, x.seq)).collect::<Vec<_>>(),
                o.recv_end,
                o.recv_errors.len()
            );
            v.nontrivial = o.event_done;
            v
        });
        (Box::pin(root), judge)
    }
}

pub const CHANS: [TChan; 11] = [
    TChan::Base,
    TChan::MpscTxAway,
    TChan::MpscRxAway,
    TChan::MpscLocalAndAway,
    TChan::MpscTwoAway,
    TChan::LrTxAway,
    TChan::LrRxAway,
    TChan::OneTxAway,
    TChan::OneRxAway,
    TChan::BinTxAway,
    TChan::BinRxAway,
];

pub fn grid(_tier: Tier) -> Vec<Arc<dyn Scenario>> {
    let mut out: Vec<Arc<dyn Scenario>> = Vec::new();
    for chan in CHANS {
        for ev in [Ev::CloseRx, Ev::DropRx, Ev::DropTx, Ev::Cut] {
            let max_after = if matches!(chan, TChan::OneTxAway | TChan::OneRxAway) { 1 } else { N as usize };
            for after in 0..=max_after {
                for settle in [true, false] {
                    out.push(Arc::new(TypedCloseScenario { chan, ev, after, settle, sched: false, hops: 1, stall: false }));
                    if !settle && !matches!(chan, TChan::OneTxAway | TChan::OneRxAway) && matches!(ev, Ev::CloseRx | Ev::DropRx) && after >= 1 && after <= 2 {
                        out.push(Arc::new(TypedCloseScenario { chan, ev, after, settle, sched: false, hops: 1, stall: true }));
                        if !matches!(chan, TChan::Base | TChan::MpscLocalAndAway | TChan::MpscTwoAway | TChan::LrTxAway | TChan::LrRxAway) {
                            out.push(Arc::new(TypedCloseScenario { chan, ev, after, settle, sched: false, hops: 2, stall: true }));
                        }
                    }
                    // forwarded through a middle endpoint
                    if !matches!(chan, TChan::Base | TChan::MpscLocalAndAway | TChan::MpscTwoAway | TChan::LrTxAway | TChan::LrRxAway) && (after == 0 || after == 2 || after == max_after) {
                        out.push(Arc::new(TypedCloseScenario { chan, ev, after, settle, sched: false, hops: 2, stall: false }));
                    }
                }
            }
        }
    }
    out
}

pub fn core(tier: Tier) -> Vec<Arc<dyn Scenario>> {
    let mut out: Vec<Arc<dyn Scenario>> = Vec::new();
    let chans: &[TChan] = if tier == Tier::Quick { &[TChan::MpscTxAway, TChan::LrRxAway, TChan::Base] } else { &CHANS };
    for chan in chans {
        for ev in [Ev::CloseRx, Ev::DropRx, Ev::DropTx] {
            for after in [1usize, 3] {
                if matches!(chan, TChan::OneTxAway | TChan::OneRxAway) && after > 1 {
                    continue;
                }
                out.push(Arc::new(TypedCloseScenario { chan: *chan, ev, after, settle: false, sched: true, hops: 1, stall: false }));
            }
        }
    }
    out
}
