//! C15 Watch channels converge to the latest value and never go backwards.

use futures::future::BoxFuture;
use remoc::{codec, rch::watch};
use serde::{Deserialize, Serialize};
use std::{collections::BTreeMap, sync::Arc, time::Duration};

use super::c04::{base_pair, carrier_cfg as typed_cfg};
use crate::{
    explore::{Params, explore},
    net::LinkOpts,
    report::{Report, Tier, known_sigs},
    util::{Shared, panic_findings, shared},
    world::{Ending, Env, Judge, Outcome, Scenario, Verdict},
};

type C = codec::Default;

#[derive(Serialize, Deserialize)]
enum Ship {
    Rx(u8, watch::Receiver<u32>),
    Tx(watch::Sender<u32>),
}

#[derive(Debug, Clone, Copy, PartialEq, Eq)]
pub enum Reader {
    /// changed() + borrow_and_update()
    Changed,
    /// borrow() polling at every wake-up of changed()
    Borrow,
    /// wait_for(v >= target) repeatedly
    WaitFor,
}

#[derive(Debug, Clone, PartialEq, Eq)]
pub struct WatchScenario {
    /// number of updates 1..=n
    pub n: u32,
    /// drop the sender immediately after the last update
    pub drop_sender: bool,
    /// after how many updates the remote receiver is shipped (0..=n)
    pub ship_after: u32,
    /// forward the shipped receiver one more hop (2 hops in total)
    pub two_hops: bool,
    /// ship the sender instead: updates are made on the remote endpoint
    pub ship_sender: bool,
    /// a clone / late subscription is taken after that many updates
    pub late_after: u32,
    pub reader: Reader,
    /// quiescence between updates (slow sender) or burst
    pub paced: bool,
    /// the transport towards the remote receiver is held back while the updates are made
    pub stall: bool,
}

#[derive(Default)]
struct Obs {
    /// reader name -> observed values
    seen: BTreeMap<String, Vec<u32>>,
    /// reader name -> final value when the channel closed, or current value at quiescence
    last: BTreeMap<String, String>,
    err: Option<String>,
    sent: u32,
}

async fn read_all(name: String, mut rx: watch::Receiver<u32>, how: Reader, n: u32, obs: Shared<Obs>) {
    let rec = |obs: &Shared<Obs>, v: u32| obs.lock().unwrap().seen.entry(name.clone()).or_default().push(v);
    match rx.borrow_and_update() {
        Ok(v) => rec(&obs, *v),
        Err(e) => {
            obs.lock().unwrap().last.insert(name.clone(), format!("err:{e:?}").chars().take(40).collect());
            return;
        }
    }
    loop {
        match how {
            Reader::Changed | Reader::Borrow => match rx.changed().await {
                Ok(()) => {
                    let v = if how == Reader::Changed { rx.borrow_and_update().map(|v| *v) } else { rx.borrow().map(|v| *v) };
                    match v {
                        Ok(v) => rec(&obs, v),
                        Err(e) => {
                            obs.lock().unwrap().last.insert(name.clone(), format!("err:{e:?}").chars().take(40).collect());
                            return;
                        }
                    }
                }
                Err(e) => {
                    let fin = match rx.borrow() {
                        Ok(v) => format!("closed:{}", *v),
                        Err(e2) => format!("closed-err:{e2:?}").chars().take(40).collect(),
                    };
                    let _ = e;
                    obs.lock().unwrap().last.insert(name.clone(), fin);
                    return;
                }
            },
            Reader::WaitFor => {
                let cur = obs.lock().unwrap().seen.get(&name).and_then(|v| v.last().copied()).unwrap_or(0);
                if cur >= n {
                    // wait for closure
                    match rx.changed().await {
                        Ok(()) => {
                            if let Ok(v) = rx.borrow_and_update() {
                                rec(&obs, *v);
                            }
                        }
                        Err(_) => {
                            let fin = match rx.borrow() {
                                Ok(v) => format!("closed:{}", *v),
                                Err(e2) => format!("closed-err:{e2:?}").chars().take(40).collect(),
                            };
                            obs.lock().unwrap().last.insert(name.clone(), fin);
                            return;
                        }
                    }
                    continue;
                }
                let res = rx.wait_for(|v| *v > cur).await.map(|v| *v).map_err(|_| ());
                match res {
                    Ok(v) => rec(&obs, v),
                    Err(()) => {
                        let fin = match rx.borrow() {
                            Ok(v) => format!("closed:{}", *v),
                            Err(e2) => format!("closed-err:{e2:?}").chars().take(40).collect(),
                        };
                        obs.lock().unwrap().last.insert(name.clone(), fin);
                        return;
                    }
                }
            }
        }
    }
}

impl Scenario for WatchScenario {
    fn id(&self) -> String {
        format!("c15/{self:?}")
    }

    fn start(&self, env: Env) -> (BoxFuture<'static, ()>, Judge) {
        let obs = shared(Obs::default());
        let p = self.clone();
        let o2 = obs.clone();
        let root = async move {
            env.explore(false);
            let link = if p.stall { LinkOpts { capacity: 1, deliver_cap: 1, eof_on_drop: false } } else { LinkOpts { capacity: 2, deliver_cap: 2, eof_on_drop: false } };
            let tcfg = || if p.stall { remoc::chmux::Cfg { shared_send_queue: 1, transport_send_queue: 1, transport_receive_queue: 1, ..typed_cfg() } } else { typed_cfg() };
            // A -> B carrier, and B -> C carrier for the second hop
            let ab = base_pair::<Ship, Ship, (), ()>(&env, tcfg(), tcfg(), link).await;
            let ((mut a_tx, _a_rx, ka1, ka2), (_b_tx, mut b_rx, kb1, kb2)) = match ab {
                Ok(x) => x,
                Err(e) => {
                    o2.lock().unwrap().err = Some(e);
                    return;
                }
            };
            let mut second = None;
            if p.two_hops {
                let r = env.pair_named("B2", 3, typed_cfg(), "C", 4, typed_cfg(), link, &[]).await;
                match r {
                    Ok(((cb, mut lb), (cc, mut lc))) => {
                        let t1 = env.spawn("b2c-a", 3, async move {
                            let r = remoc::rch::base::connect::<Ship, (), C>(&cb, &mut lb).await;
                            (r, cb, lb)
                        });
                        let t2 = env.spawn("b2c-b", 4, async move {
                            let r = remoc::rch::base::connect::<(), Ship, C>(&cc, &mut lc).await;
                            (r, cc, lc)
                        });
                        let (r1, k1, k2) = t1.await.unwrap();
                        let (r2, k3, k4) = t2.await.unwrap();
                        match (r1, r2) {
                            (Ok((tx, _)), Ok((_, rx))) => second = Some((tx, rx, (k1, k2, k3, k4))),
                            _ => {
                                o2.lock().unwrap().err = Some("second hop".into());
                                return;
                            }
                        }
                    }
                    Err(e) => {
                        o2.lock().unwrap().err = Some(e);
                        return;
                    }
                }
            }
            env.explore(true);
            let (tx, rx0) = watch::channel::<u32, C>(0);
            let mut readers = Vec::new();
            // local reader on the creating endpoint
            readers.push(env.spawn("reader-local", 1, read_all("local".into(), rx0.clone(), p.reader, p.n, o2.clone())));
            // B: receives shipped halves
            let (o3, env3, reader, n) = (o2.clone(), env.clone(), p.reader, p.n);
            let two_hops = p.two_hops;
            let mut second_tx = None;
            let mut second_rx = None;
            let mut second_keep = None;
            if let Some((t, r, k)) = second {
                second_tx = Some(t);
                second_rx = Some(r);
                second_keep = Some(k);
            }
            let b_task = env.spawn("B.recv", 2, async move {
                let mut hs = Vec::new();
                let mut second_tx = second_tx;
                while let Ok(Some(ship)) = b_rx.recv().await {
                    match ship {
                        Ship::Rx(id, rx) => {
                            if two_hops {
                                if let Some(t) = second_tx.as_mut() {
                                    let _ = t.send(Ship::Rx(id, rx)).await;
                                }
                            } else {
                                hs.push(env3.spawn("reader-remote", 2, read_all(format!("remote{id}"), rx, reader, n, o3.clone())));
                            }
                        }
                        Ship::Tx(tx) => {
                            // updates are made here
                            for v in 1..=n {
                                let _ = tx.send(v);
                                o3.lock().unwrap().sent = v;
                                tokio::time::sleep(Duration::from_millis(1)).await;
                            }
                            tokio::time::sleep(Duration::from_secs(2)).await;
                            drop(tx);
                        }
                    }
                }
                drop(second_tx);
                for h in hs {
                    let _ = h.await;
                }
            });
            let c_task = second_rx.map(|mut rx| {
                let (o4, env4) = (o2.clone(), env.clone());
                env.spawn("C.recv", 4, async move {
                    let mut hs = Vec::new();
                    while let Ok(Some(ship)) = rx.recv().await {
                        if let Ship::Rx(id, r) = ship {
                            hs.push(env4.spawn("reader-remote2", 4, read_all(format!("remote{id}"), r, reader, n, o4.clone())));
                        }
                    }
                    for h in hs {
                        let _ = h.await;
                    }
                })
            });
            if p.ship_sender {
                // the sender travels; local receivers stay
                if a_tx.send(Ship::Tx(tx)).await.is_err() {
                    o2.lock().unwrap().err = Some("ship sender".into());
                }
                drop(rx0);
                drop(a_tx);
            } else {
                let mut shipped = false;
                let mut late_taken = false;
                for v in 0..=p.n {
                    if v == p.ship_after && !shipped {
                        shipped = true;
                        let r = tx.subscribe();
                        if a_tx.send(Ship::Rx(1, r)).await.is_err() {
                            o2.lock().unwrap().err = Some("ship receiver".into());
                        }
                    }
                    if v == p.late_after && !late_taken {
                        late_taken = true;
                        let late = if v % 2 == 0 { tx.subscribe() } else { rx0.clone() };
                        readers.push(env.spawn("reader-late", 1, read_all("late".into(), late, p.reader, p.n, o2.clone())));
                        if !p.stall {
                            let r2 = tx.subscribe();
                            if a_tx.send(Ship::Rx(2, r2)).await.is_err() {
                                o2.lock().unwrap().err = Some("ship receiver 2".into());
                            }
                        }
                    }
                    if p.stall && v == p.ship_after {
                        // let the shipped receiver connect, then hold the transport towards it
                        env.quiesce().await;
                        env.dir(0, 0).hold(true);
                    }
                    if v < p.n {
                        let _ = tx.send(v + 1);
                        o2.lock().unwrap().sent = v + 1;
                        if p.paced {
                            env.quiesce().await;
                        }
                    }
                }
                drop(rx0);
                if p.stall {
                    if p.drop_sender {
                        drop(tx);
                        env.quiesce().await;
                        env.dir(0, 0).hold(false);
                    } else {
                        env.dir(0, 0).hold(false);
                        env.quiesce().await;
                        drop(tx);
                    }
                } else if p.drop_sender {
                    drop(tx);
                } else {
                    env.quiesce().await;
                    env.quiesce().await;
                    drop(tx);
                }
                drop(a_tx);
            }
            for r in readers {
                let _ = r.await;
            }
            let _ = b_task.await;
            if let Some(c) = c_task {
                let _ = c.await;
            }
            env.explore(false);
            drop((ka1, ka2, kb1, kb2, second_keep));
        };
        let p = self.clone();
        let judge: Judge = Box::new(move |out: &Outcome| {
            let o = obs.lock().unwrap();
            let mut v = Verdict::default();
            v.findings.extend(panic_findings(out, "C15"));
            if let Some(e) = &o.err {
                v.fail("C15", "setup-failed", e.clone());
            } else if out.ending != Ending::Completed {
                v.fail("C15", "watch-scenario-stuck", format!("{:?}: seen {:?} last {:?}", out.ending, o.seen, o.last));
            } else {
                for (name, seq) in &o.seen {
                    if seq.windows(2).any(|w| w[1] < w[0]) {
                        v.fail("C15", "value-went-backwards", format!("receiver {name} observed {seq:?}"));
                    }
                    if seq.iter().any(|x| *x > p.n) {
                        v.fail("C15", "value-never-sent", format!("receiver {name} observed {seq:?}, sent 0..={}", p.n));
                    }
                    let fin = o.last.get(name).cloned().unwrap_or_else(|| "none".into());
                    let last_seen = seq.last().copied().unwrap_or(0);
                    let expect = format!("closed:{}", p.n);
                    if fin != expect {
                        v.fail(
                            "C15",
                            format!("latest-value-lost:{}", if name.starts_with("remote") { "remote" } else { "local" }),
                            format!("receiver {name} ended with {fin} (observed {seq:?}) but the last value sent was {} (sender dropped immediately: {})", p.n, p.drop_sender),
                        );
                    } else if last_seen > p.n {
                        v.fail("C15", "value-never-sent", format!("{name}: {seq:?}"));
                    }
                }
                let expected_readers = if p.ship_sender { 1 } else if p.stall { 3 } else { 4 };
                if o.seen.len() < expected_readers {
                    v.fail("C15", "reader-missing", format!("only {:?} reported", o.seen.keys().collect::<Vec<_>>()));
                }
            }
            v.outcome = format!("{:?}|{:?}|{:?}", o.seen, o.last, out.ending);
            v.nontrivial = o.seen.values().any(|s| s.len() > 2);
            v
        });
        (Box::pin(root), judge)
    }
}

pub fn grid(tier: Tier) -> Vec<Arc<dyn Scenario>> {
    let mut out: Vec<Arc<dyn Scenario>> = Vec::new();
    let ns: &[u32] = if tier == Tier::Quick { &[1, 3] } else { &[1, 2, 3, 5] };
    for &n in ns {
        for drop_sender in [true, false] {
            for ship_after in 0..=n {
                for two_hops in [false, true] {
                    for paced in [false, true] {
                        for reader in [Reader::Changed, Reader::Borrow, Reader::WaitFor] {
                            let late_after = (ship_after + 1) % (n + 1);
                            out.push(Arc::new(WatchScenario { n, drop_sender, ship_after, two_hops, ship_sender: false, late_after, reader, paced, stall: false }));
                        }
                    }
                }
            }
            out.push(Arc::new(WatchScenario { n, drop_sender, ship_after: 0, two_hops: false, ship_sender: true, late_after: 0, reader: Reader::Changed, paced: false, stall: false }));
        }
    }
    // updates while the path to the remote receiver is blocked: enough updates to fill every queue
    for n in [4u32, 5, 6] {
        for drop_sender in [true, false] {
            for ship_after in [0u32, 1] {
                for reader in [Reader::Changed, Reader::WaitFor] {
                    out.push(Arc::new(WatchScenario { n, drop_sender, ship_after, two_hops: false, ship_sender: false, late_after: n, reader, paced: true, stall: true }));
                }
            }
        }
    }
    out
}

pub fn core(tier: Tier) -> Vec<Arc<dyn Scenario>> {
    let mut out: Vec<Arc<dyn Scenario>> = vec![
        Arc::new(WatchScenario { n: 2, drop_sender: true, ship_after: 1, two_hops: false, ship_sender: false, late_after: 2, reader: Reader::Changed, paced: false, stall: false }),
        Arc::new(WatchScenario { n: 3, drop_sender: true, ship_after: 0, two_hops: false, ship_sender: false, late_after: 1, reader: Reader::Borrow, paced: false, stall: false }),
        Arc::new(WatchScenario { n: 2, drop_sender: false, ship_after: 2, two_hops: true, ship_sender: false, late_after: 0, reader: Reader::WaitFor, paced: false, stall: false }),
        Arc::new(WatchScenario { n: 5, drop_sender: true, ship_after: 0, two_hops: false, ship_sender: false, late_after: 5, reader: Reader::Changed, paced: true, stall: true }),
    ];
    if tier == Tier::Thorough {
        out.push(Arc::new(WatchScenario { n: 3, drop_sender: true, ship_after: 2, two_hops: true, ship_sender: false, late_after: 3, reader: Reader::Changed, paced: false, stall: false }));
    }
    out
}

pub fn all_scenarios(tier: Tier) -> Vec<Arc<dyn Scenario>> {
    let mut v = grid(tier);
    v.extend(core(tier));
    v
}

pub fn run(tier: Tier, seed: u64) -> i32 {
    let mut rep = Report::new("C15", tier, seed);
    let known = known_sigs("C15");
    let q = tier == Tier::Quick;
    let p0 = Params { max_dev: if q { 0 } else { 1 }, seeds: vec![seed, seed + 1], time_limit: Duration::from_secs(if q { 20 } else { 600 }), ..Default::default() };
    rep.add("update counts x drop/keep x transfer moment x hops x reader style x pacing", explore("C15", grid(tier), p0, &known));
    let p = Params { max_dev: if q { 2 } else { 3 }, seeds: vec![seed], time_limit: Duration::from_secs(if q { 25 } else { 900 }), ..Default::default() };
    rep.add("core scenarios under schedule exploration", explore("C15", core(tier), p, &known));
    rep.rule = "a case = (n updates, sender dropped immediately or kept, moment at which a receiver is subscribed and sent to the remote endpoint, 1 or 2 hops, sender half sent away, reader style borrow/changed/wait_for, paced or burst, schedule deviations); four receivers per case (local, late clone/subscription, two remote); distinct = distinct observed sequences; non-trivial = some receiver observed more than two values".into();
    rep.assumptions = vec!["connection stays up; select! fairness fixed per seed".into()];
    rep.finish()
}
