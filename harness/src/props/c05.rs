//! C05 Channel halves embedded in values are wired one-to-one to their counterparts.

use bytes::Bytes;
use futures::future::BoxFuture;
use remoc::{
    chmux::Cfg,
    codec,
    rch::{base, bin, broadcast, lr, mpsc, oneshot, watch},
};
use serde::{Deserialize, Serialize};
use std::{collections::BTreeMap, sync::Arc, time::Duration};

use crate::{
    explore::{Params, explore},
    net::LinkOpts,
    report::{Report, Tier, known_sigs},
    util::{Shared, panic_findings, shared},
    world::{Ending, Env, Judge, Outcome, Scenario, Verdict, cfg},
};

#[derive(Debug, Clone, Copy, PartialEq, Eq)]
pub enum HK {
    MpscTx,
    MpscRx,
    OneTx,
    OneRx,
    WatchTx,
    WatchRx,
    BcastRx,
    LrTx,
    LrRx,
    BinTx,
    BinRx,
}

pub const ALL_KINDS: [HK; 11] =
    [HK::MpscTx, HK::MpscRx, HK::OneTx, HK::OneRx, HK::WatchTx, HK::WatchRx, HK::BcastRx, HK::LrTx, HK::LrRx, HK::BinTx, HK::BinRx];

type C = codec::Default;

#[derive(Serialize, Deserialize)]
pub enum Half {
    MpscTx(u32, mpsc::Sender<u32>),
    MpscRx(u32, mpsc::Receiver<u32>),
    OneTx(u32, oneshot::Sender<u32>),
    OneRx(u32, oneshot::Receiver<u32>),
    WatchTx(u32, watch::Sender<u32>),
    WatchRx(u32, watch::Receiver<u32>),
    BcastRx(u32, broadcast::Receiver<u32>),
    LrTx(u32, lr::Sender<u32>),
    LrRx(u32, lr::Receiver<u32>),
    BinTx(u32, bin::Sender),
    BinRx(u32, bin::Receiver),
}

/// The half that stays on the origin endpoint.
pub enum Counter {
    MpscRx(u32, mpsc::Receiver<u32>),
    MpscTx(u32, mpsc::Sender<u32>),
    OneRx(u32, oneshot::Receiver<u32>),
    OneTx(u32, oneshot::Sender<u32>),
    WatchRx(u32, watch::Receiver<u32>),
    WatchTx(u32, watch::Sender<u32>),
    BcastTx(u32, broadcast::Sender<u32>),
    LrRx(u32, lr::Receiver<u32>),
    LrTx(u32, lr::Sender<u32>),
    BinRx(u32, bin::Receiver),
    BinTx(u32, bin::Sender),
}

/// Containers the halves travel in.
#[derive(Serialize, Deserialize, Default)]
pub struct Value {
    pub tag: u32,
    pub list: Vec<Half>,
    pub opt: Option<Box<Half>>,
    pub map: BTreeMap<u8, Half>,
    pub pair: Option<(Half, Half)>,
    pub variant: Option<Nested>,
    /// bulk data after the halves (makes the value exceed max_data_size when large)
    #[serde(default)]
    pub bulk: Vec<u8>,
}

#[derive(Serialize, Deserialize)]
pub enum Nested {
    One(Half),
    Deep(Vec<Option<Half>>),
}

fn make(kind: HK, i: u32, preload: bool) -> (Half, Counter) {
    match kind {
        HK::MpscTx => {
            let (tx, rx) = mpsc::channel::<u32, C>(4);
            (Half::MpscTx(i, tx), Counter::MpscRx(i, rx))
        }
        HK::MpscRx => {
            let (tx, rx) = mpsc::channel::<u32, C>(4);
            if preload {
                let _ = tx.try_send(3000 + i);
            }
            (Half::MpscRx(i, rx), Counter::MpscTx(i, tx))
        }
        HK::OneTx => {
            let (tx, rx) = oneshot::channel::<u32, C>();
            (Half::OneTx(i, tx), Counter::OneRx(i, rx))
        }
        HK::OneRx => {
            let (tx, rx) = oneshot::channel::<u32, C>();
            (Half::OneRx(i, rx), Counter::OneTx(i, tx))
        }
        HK::WatchTx => {
            let (tx, rx) = watch::channel::<u32, C>(0);
            (Half::WatchTx(i, tx), Counter::WatchRx(i, rx))
        }
        HK::WatchRx => {
            let (tx, rx) = watch::channel::<u32, C>(0);
            if preload {
                let _ = tx.send(3000 + i);
            }
            (Half::WatchRx(i, rx), Counter::WatchTx(i, tx))
        }
        HK::BcastRx => {
            let (tx, rx) = broadcast::channel::<u32, C, 2>(4);
            (Half::BcastRx(i, rx), Counter::BcastTx(i, tx))
        }
        HK::LrTx => {
            let (tx, rx) = lr::channel::<u32, C>();
            (Half::LrTx(i, tx), Counter::LrRx(i, rx))
        }
        HK::LrRx => {
            let (tx, rx) = lr::channel::<u32, C>();
            (Half::LrRx(i, rx), Counter::LrTx(i, tx))
        }
        HK::BinTx => {
            let (tx, rx) = bin::channel();
            (Half::BinTx(i, tx), Counter::BinRx(i, rx))
        }
        HK::BinRx => {
            let (tx, rx) = bin::channel();
            (Half::BinRx(i, rx), Counter::BinTx(i, tx))
        }
    }
}

/// Places the halves into the containers according to `shape`.
fn place(halves: Vec<Half>, shape: u8) -> Value {
    let mut v = Value { tag: shape as u32, ..Default::default() };
    let mut it = halves.into_iter();
    match shape {
        0 => v.list = it.collect(),
        1 => {
            v.opt = it.next().map(Box::new);
            v.list = it.collect();
        }
        2 => {
            for (k, h) in it.enumerate() {
                v.map.insert(200 - k as u8, h);
            }
        }
        3 => {
            let a = it.next();
            let b = it.next();
            match (a, b) {
                (Some(a), Some(b)) => v.pair = Some((a, b)),
                (Some(a), None) => v.variant = Some(Nested::One(a)),
                _ => {}
            }
            v.list = it.collect();
        }
        _ => {
            let mut deep = Vec::new();
            for h in it {
                deep.push(None);
                deep.push(Some(h));
            }
            v.variant = Some(Nested::Deep(deep));
        }
    }
    v
}

fn flatten(v: Value) -> Vec<Half> {
    let mut out = Vec::new();
    if let Some(o) = v.opt {
        out.push(*o);
    }
    if let Some((a, b)) = v.pair {
        out.push(a);
        out.push(b);
    }
    match v.variant {
        Some(Nested::One(h)) => out.push(h),
        Some(Nested::Deep(d)) => out.extend(d.into_iter().flatten()),
        None => {}
    }
    out.extend(v.list);
    out.extend(v.map.into_values());
    out
}

#[derive(Default)]
struct Obs {
    /// half index -> what the origin-side counterpart observed
    origin: BTreeMap<u32, String>,
    /// half index -> what the travelling half observed at the final endpoint
    remote: BTreeMap<u32, String>,
    err: Option<String>,
    send_result: Option<String>,
    recv_result: Vec<String>,
    delivered: usize,
}

pub struct HalvesScenario {
    pub kinds: Vec<HK>,
    pub shape: u8,
    pub hops: u8,
    pub preload: bool,
    /// max_ports of the endpoints (exhaustion when small)
    pub max_ports: u32,
    /// max_ports of the last (receiving) endpoint
    pub max_ports_last: u32,
    pub rb: u32,
    /// bytes of bulk data following the halves in the value (> max_data_size 4096: the value is streamed
    /// through remoc's helper threads, so the schedule is not controlled)
    pub bulk: usize,
}

const WAIT: Duration = Duration::from_secs(20);

async fn exercise_remote(env: &Env, h: Half, obs: &Shared<Obs>) {
    let rec = |i: u32, s: String| {
        obs.lock().unwrap().remote.insert(i, s);
    };
    let _ = env;
    match h {
        Half::MpscTx(i, tx) => {
            let r = match tokio::time::timeout(WAIT, tx.send(1000 + i)).await {
                Ok(Ok(s)) => match tokio::time::timeout(WAIT, s).await {
                    Ok(Ok(())) => "sent".to_string(),
                    Ok(Err(e)) => format!("err:{:?}", e.kind()),
                    Err(_) => "hang".into(),
                },
                Ok(Err(e)) => format!("err:{:?}", e.without_item()),
                Err(_) => "hang".into(),
            };
            rec(i, r);
            tx.closed().await;
        }
        Half::MpscRx(i, mut rx) => {
            let mut got = Vec::new();
            loop {
                match tokio::time::timeout(WAIT, rx.recv()).await {
                    Ok(Ok(Some(v))) => got.push(v.to_string()),
                    Ok(Ok(None)) => break,
                    Ok(Err(e)) => {
                        got.push(format!("err:{e:?}").chars().take(40).collect());
                        if e.is_final() || got.len() > 8 {
                            break;
                        }
                    }
                    Err(_) => {
                        got.push("hang".into());
                        break;
                    }
                }
            }
            rec(i, got.join(","));
        }
        Half::OneTx(i, tx) => {
            let r = match tx.send(1000 + i) {
                Ok(s) => match tokio::time::timeout(WAIT, s).await {
                    Ok(Ok(())) => "sent".to_string(),
                    Ok(Err(e)) => format!("err:{:?}", e.kind()),
                    Err(_) => "hang".into(),
                },
                Err(e) => format!("err:{:?}", e.without_item()),
            };
            rec(i, r);
        }
        Half::OneRx(i, rx) => {
            let r = match tokio::time::timeout(WAIT, rx).await {
                Ok(Ok(v)) => v.to_string(),
                Ok(Err(e)) => format!("err:{e:?}").chars().take(40).collect(),
                Err(_) => "hang".into(),
            };
            rec(i, r);
        }
        Half::WatchTx(i, tx) => {
            let r = match tx.send(1000 + i) {
                Ok(()) => "sent".to_string(),
                Err(e) => format!("err:{e:?}"),
            };
            rec(i, r);
            let _ = tokio::time::timeout(WAIT, tx.closed()).await;
        }
        Half::WatchRx(i, mut rx) => {
            let mut last = match rx.borrow_and_update() {
                Ok(v) => v.to_string(),
                Err(e) => format!("err:{e:?}").chars().take(40).collect(),
            };
            loop {
                match tokio::time::timeout(WAIT, rx.changed()).await {
                    Ok(Ok(())) => {
                        last = match rx.borrow_and_update() {
                            Ok(v) => v.to_string(),
                            Err(e) => format!("err:{e:?}").chars().take(40).collect(),
                        }
                    }
                    Ok(Err(_)) => break,
                    Err(_) => {
                        last = format!("{last},hang");
                        break;
                    }
                }
            }
            rec(i, last);
        }
        Half::BcastRx(i, mut rx) => {
            let mut got = Vec::new();
            loop {
                match tokio::time::timeout(WAIT, rx.recv()).await {
                    Ok(Ok(v)) => got.push(v.to_string()),
                    Ok(Err(e)) => {
                        if !e.is_closed() {
                            got.push(format!("err:{e:?}").chars().take(40).collect());
                        }
                        if e.is_final() || got.len() > 8 {
                            break;
                        }
                    }
                    Err(_) => {
                        got.push("hang".into());
                        break;
                    }
                }
            }
            rec(i, got.join(","));
        }
        Half::LrTx(i, mut tx) => {
            let r = match tokio::time::timeout(WAIT, tx.send(1000 + i)).await {
                Ok(Ok(())) => "sent".to_string(),
                Ok(Err(e)) => format!("err:{:?}", e.kind).chars().take(40).collect(),
                Err(_) => "hang".into(),
            };
            rec(i, r);
        }
        Half::LrRx(i, mut rx) => {
            let r = match tokio::time::timeout(WAIT, rx.recv()).await {
                Ok(Ok(Some(v))) => v.to_string(),
                Ok(Ok(None)) => "eos".into(),
                Ok(Err(e)) => format!("err:{e:?}").chars().take(40).collect(),
                Err(_) => "hang".into(),
            };
            rec(i, r);
        }
        Half::BinTx(i, tx) => {
            let r = match tokio::time::timeout(WAIT, tx.into_inner()).await {
                Ok(Ok(mut raw)) => match tokio::time::timeout(WAIT, raw.send(Bytes::from((1000 + i).to_le_bytes().to_vec()))).await {
                    Ok(Ok(())) => "sent".to_string(),
                    Ok(Err(e)) => format!("err:{e:?}"),
                    Err(_) => "hang".into(),
                },
                Ok(Err(e)) => format!("err:{e:?}").chars().take(40).collect(),
                Err(_) => "hang".into(),
            };
            rec(i, r);
        }
        Half::BinRx(i, rx) => {
            let r = match tokio::time::timeout(WAIT, rx.into_inner()).await {
                Ok(Ok(mut raw)) => match tokio::time::timeout(WAIT, raw.recv()).await {
                    Ok(Ok(Some(d))) => {
                        let b: Bytes = d.into();
                        if b.len() == 4 { u32::from_le_bytes([b[0], b[1], b[2], b[3]]).to_string() } else { format!("bytes:{}", b.len()) }
                    }
                    Ok(Ok(None)) => "eos".into(),
                    Ok(Err(e)) => format!("err:{e:?}"),
                    Err(_) => "hang".into(),
                },
                Ok(Err(e)) => format!("err:{e:?}").chars().take(40).collect(),
                Err(_) => "hang".into(),
            };
            rec(i, r);
        }
    }
}

async fn exercise_origin(c: Counter, obs: &Shared<Obs>) {
    let rec = |i: u32, s: String| {
        obs.lock().unwrap().origin.insert(i, s);
    };
    match c {
        Counter::MpscRx(i, mut rx) => {
            let mut got = Vec::new();
            loop {
                match tokio::time::timeout(WAIT, rx.recv()).await {
                    Ok(Ok(Some(v))) => {
                        got.push(v.to_string());
                        rx.close();
                    }
                    Ok(Ok(None)) => break,
                    Ok(Err(e)) => {
                        got.push(format!("err:{e:?}").chars().take(40).collect());
                        if e.is_final() || got.len() > 8 {
                            break;
                        }
                    }
                    Err(_) => {
                        got.push("hang".into());
                        break;
                    }
                }
            }
            rec(i, got.join(","));
        }
        Counter::MpscTx(i, tx) => {
            let r = match tokio::time::timeout(WAIT, tx.send(2000 + i)).await {
                Ok(Ok(s)) => match tokio::time::timeout(WAIT, s).await {
                    Ok(Ok(())) => "sent".to_string(),
                    Ok(Err(e)) => format!("err:{:?}", e.kind()),
                    Err(_) => "hang".into(),
                },
                Ok(Err(e)) => format!("err:{:?}", e.without_item()),
                Err(_) => "hang".into(),
            };
            rec(i, r);
        }
        Counter::OneRx(i, rx) => {
            let r = match tokio::time::timeout(WAIT, rx).await {
                Ok(Ok(v)) => v.to_string(),
                Ok(Err(e)) => format!("err:{e:?}").chars().take(40).collect(),
                Err(_) => "hang".into(),
            };
            rec(i, r);
        }
        Counter::OneTx(i, tx) => {
            let r = match tx.send(2000 + i) {
                Ok(s) => match tokio::time::timeout(WAIT, s).await {
                    Ok(Ok(())) => "sent".to_string(),
                    Ok(Err(e)) => format!("err:{:?}", e.kind()),
                    Err(_) => "hang".into(),
                },
                Err(e) => format!("err:{:?}", e.without_item()),
            };
            rec(i, r);
        }
        Counter::WatchRx(i, mut rx) => {
            let mut last = "0".to_string();
            loop {
                match tokio::time::timeout(WAIT, rx.changed()).await {
                    Ok(Ok(())) => {
                        last = match rx.borrow_and_update() {
                            Ok(v) => v.to_string(),
                            Err(e) => format!("err:{e:?}").chars().take(40).collect(),
                        };
                        if last != "0" {
                            break;
                        }
                    }
                    Ok(Err(e)) => {
                        last = format!("{last},closed:{e:?}").chars().take(50).collect();
                        break;
                    }
                    Err(_) => {
                        last = format!("{last},hang");
                        break;
                    }
                }
            }
            rec(i, last);
        }
        Counter::WatchTx(i, tx) => {
            let r = match tx.send(2000 + i) {
                Ok(()) => "sent".to_string(),
                Err(e) => format!("err:{e:?}"),
            };
            rec(i, r);
            // keep the sender until the travelling receiver has been connected and saw the value
            tokio::time::sleep(Duration::from_secs(5)).await;
        }
        Counter::BcastTx(i, tx) => {
            // wait until the remote subscriber is connected: send after a while
            tokio::time::sleep(Duration::from_secs(5)).await;
            let r = match tx.send(2000 + i) {
                Ok(_) => "sent".to_string(),
                Err(e) => format!("err:{:?}", e.without_item()),
            };
            rec(i, r);
            tokio::time::sleep(Duration::from_secs(5)).await;
        }
        Counter::LrRx(i, mut rx) => {
            let r = match tokio::time::timeout(WAIT, rx.recv()).await {
                Ok(Ok(Some(v))) => v.to_string(),
                Ok(Ok(None)) => "eos".into(),
                Ok(Err(e)) => format!("err:{e:?}").chars().take(40).collect(),
                Err(_) => "hang".into(),
            };
            rec(i, r);
        }
        Counter::LrTx(i, mut tx) => {
            let r = match tokio::time::timeout(WAIT, tx.send(2000 + i)).await {
                Ok(Ok(())) => "sent".to_string(),
                Ok(Err(e)) => format!("err:{:?}", e.kind).chars().take(40).collect(),
                Err(_) => "hang".into(),
            };
            rec(i, r);
        }
        Counter::BinRx(i, rx) => {
            let r = match tokio::time::timeout(WAIT, rx.into_inner()).await {
                Ok(Ok(mut raw)) => match tokio::time::timeout(WAIT, raw.recv()).await {
                    Ok(Ok(Some(d))) => {
                        let b: Bytes = d.into();
                        if b.len() == 4 { u32::from_le_bytes([b[0], b[1], b[2], b[3]]).to_string() } else { format!("bytes:{}", b.len()) }
                    }
                    Ok(Ok(None)) => "eos".into(),
                    Ok(Err(e)) => format!("err:{e:?}"),
                    Err(_) => "hang".into(),
                },
                Ok(Err(e)) => format!("err:{e:?}").chars().take(40).collect(),
                Err(_) => "hang".into(),
            };
            rec(i, r);
        }
        Counter::BinTx(i, tx) => {
            let r = match tokio::time::timeout(WAIT, tx.into_inner()).await {
                Ok(Ok(mut raw)) => match tokio::time::timeout(WAIT, raw.send(Bytes::from((2000 + i).to_le_bytes().to_vec()))).await {
                    Ok(Ok(())) => "sent".to_string(),
                    Ok(Err(e)) => format!("err:{e:?}"),
                    Err(_) => "hang".into(),
                },
                Ok(Err(e)) => format!("err:{e:?}").chars().take(40).collect(),
                Err(_) => "hang".into(),
            };
            rec(i, r);
        }
    }
}

impl Scenario for HalvesScenario {
    fn id(&self) -> String {
        format!("c05/{:?}/shape{}/hops{}/pre{}/mp{},{}/rb{}/bulk{}", self.kinds, self.shape, self.hops, self.preload as u8, self.max_ports, self.max_ports_last, self.rb, self.bulk)
    }

    fn watchdog_secs(&self) -> u64 {
        10_000
    }

    fn deterministic(&self) -> bool {
        self.bulk <= 4000
    }

    fn start(&self, env: Env) -> (BoxFuture<'static, ()>, Judge) {
        let obs = shared(Obs::default());
        let (kinds, shape, hops, preload, max_ports, rb) = (self.kinds.clone(), self.shape, self.hops, self.preload, self.max_ports, self.rb);
        let max_ports_last = self.max_ports_last;
        let bulk = self.bulk;
        let o2 = obs.clone();
        let kinds2 = kinds.clone();
        let root = async move {
            let kinds = kinds2;
            env.explore(false);
            let mk = |mp: u32| Cfg { max_ports: mp, max_received_ports: 64, ..cfg(64, rb, 4096, 4, 4) };
            let link = LinkOpts { capacity: 4, deliver_cap: 4, eof_on_drop: false };
            // chain of hops: E0 -> E1 -> ... -> E_hops
            let mut senders: Vec<base::Sender<Value>> = Vec::new();
            let mut receivers: Vec<base::Receiver<Value>> = Vec::new();
            let mut keep = Vec::new();
            for h in 0..hops {
                let (na, nb) = (format!("E{h}s"), format!("E{}r", h + 1));
                let r = env.pair_named(&na, 1 + h, mk(max_ports), &nb, 2 + h, mk(if h + 1 == hops { max_ports_last } else { max_ports }), link, &[]).await;
                let ((ca, mut la), (cb, mut lb)) = match r {
                    Ok(x) => x,
                    Err(e) => {
                        o2.lock().unwrap().err = Some(e);
                        return;
                    }
                };
                let a = env.spawn("bc-a", 1 + h, async move {
                    let r = base::connect::<Value, (), C>(&ca, &mut la).await;
                    (r, ca, la)
                });
                let b = env.spawn("bc-b", 2 + h, async move {
                    let r = base::connect::<(), Value, C>(&cb, &mut lb).await;
                    (r, cb, lb)
                });
                let (ra, ca, la) = a.await.unwrap();
                let (rb_, cb, lb) = b.await.unwrap();
                match (ra, rb_) {
                    (Ok((tx, _)), Ok((_, rx))) => {
                        senders.push(tx);
                        receivers.push(rx);
                    }
                    _ => {
                        o2.lock().unwrap().err = Some("base connect".into());
                        return;
                    }
                }
                keep.push((ca, la, cb, lb));
            }
            env.explore(true);
            // origin: build the value
            let mut halves = Vec::new();
            let mut counters = Vec::new();
            for (i, k) in kinds.iter().enumerate() {
                let (h, c) = make(*k, i as u32, preload);
                halves.push(h);
                counters.push(c);
            }
            let mut value = place(halves, shape);
            value.bulk = (0..bulk).map(|i| (i % 251) as u8).collect();
            let mut tasks = Vec::new();
            for c in counters {
                let o3 = o2.clone();
                tasks.push(env.spawn("origin-half", 1, async move { exercise_origin(c, &o3).await }));
            }
            // forwarders
            let mut senders = senders.into_iter();
            let mut first = senders.next().unwrap();
            let o3 = o2.clone();
            let origin = env.spawn("origin-send", 1, async move {
                let r = first.send(value).await;
                o3.lock().unwrap().send_result = Some(match &r {
                    Ok(()) => "ok".into(),
                    Err(e) => format!("err:{:?}", e.kind).chars().take(60).collect(),
                });
                first
            });
            let mut receivers = receivers.into_iter();
            let mut fwd_tasks = Vec::new();
            let mut last_rx = receivers.next().unwrap();
            for (h, mut next_tx) in senders.enumerate() {
                let mut rx = last_rx;
                last_rx = receivers.next().unwrap();
                let o3 = o2.clone();
                fwd_tasks.push(env.spawn("forwarder", 2 + h as u8, async move {
                    let mut errors = 0;
                    loop {
                        match rx.recv().await {
                            Ok(Some(v)) => {
                                if let Err(e) = next_tx.send(v).await {
                                    o3.lock().unwrap().recv_result.push(format!("fwd-send-err:{:?}", e.kind).chars().take(60).collect());
                                }
                            }
                            Ok(None) => break,
                            Err(e) => {
                                errors += 1;
                                o3.lock().unwrap().recv_result.push(format!("fwd-recv-err:{e:?}").chars().take(80).collect());
                                if e.is_final() || errors > 10 {
                                    break;
                                }
                            }
                        }
                    }
                }));
            }
            let (o3, env3) = (o2.clone(), env.clone());
            let fin = env.spawn("final", 1 + hops, async move {
                let mut rx = last_rx;
                let mut hs = Vec::new();
                let mut errors = 0;
                loop {
                    match rx.recv().await {
                        Ok(Some(v)) => {
                            let halves = flatten(v);
                            o3.lock().unwrap().delivered += halves.len();
                            for h in halves {
                                let (o4, e4) = (o3.clone(), env3.clone());
                                hs.push(env3.spawn("final-half", 1 + hops, async move { exercise_remote(&e4, h, &o4).await }));
                            }
                        }
                        Ok(None) => break,
                        Err(e) => {
                            errors += 1;
                            o3.lock().unwrap().recv_result.push(format!("final-recv-err:{e:?}").chars().take(100).collect());
                            if e.is_final() || errors > 10 {
                                if errors > 10 {
                                    o3.lock().unwrap().recv_result.push("error-storm".into());
                                }
                                break;
                            }
                        }
                    }
                }
                for h in hs {
                    let _ = h.await;
                }
            });
            let first = origin.await;
            for t in tasks {
                let _ = t.await;
            }
            drop(first);
            for t in fwd_tasks {
                let _ = t.await;
            }
            let _ = fin.await;
            env.explore(false);
            drop(keep);
        };
        let judge: Judge = Box::new(move |out: &Outcome| {
            let o = obs.lock().unwrap();
            let mut v = Verdict::default();
            v.findings.extend(panic_findings(out, "C05"));
            if let Some(e) = &o.err {
                v.fail("C05", "setup-failed", e.clone());
            } else if out.ending != Ending::Completed {
                v.fail("C05", "halves-scenario-stuck", format!("{:?}: origin {:?} remote {:?}", out.ending, o.origin, o.remote));
            } else {
                // lr halves are documented as not forwardable: over >= 2 hops the value legitimately fails
                let unforwardable = hops >= 2 && kinds.iter().any(|k| matches!(k, HK::LrTx | HK::LrRx));
                let max_ports = if unforwardable { 0 } else { max_ports.min(max_ports_last) };
                let value_arrived = o.delivered == kinds.len();
                for (i, k) in kinds.iter().enumerate() {
                    let i = i as u32;
                    let org = o.origin.get(&i).cloned().unwrap_or_else(|| "missing".into());
                    let rem = o.remote.get(&i).cloned().unwrap_or_else(|| "missing".into());
                    if org.contains("hang") || rem.contains("hang") {
                        v.fail("C05", format!("half-hangs:{k:?}"), format!("half {i} ({k:?}): origin side {org}, travelling side {rem}; send {:?}; recv {:?}", o.send_result, o.recv_result));
                        continue;
                    }
                    // labels other than this channel's own must never appear
                    let own: Vec<String> = vec![(1000 + i).to_string(), (2000 + i).to_string(), (3000 + i).to_string(), "0".into()];
                    for side in [&org, &rem] {
                        for tok in side.split(',') {
                            if tok.chars().all(|c| c.is_ascii_digit()) && !tok.is_empty() && !own.contains(&tok.to_string()) {
                                v.fail("C05", format!("cross-wired:{k:?}"), format!("half {i} ({k:?}) observed label {tok} of another channel: origin {org} remote {rem}"));
                            }
                        }
                    }
                    if !value_arrived {
                        // the value did not arrive: origin counterparts must have seen errors / closure, not data
                        continue;
                    }
                    let expect_at_origin = (1000 + i).to_string();
                    let expect_at_remote = (2000 + i).to_string();
                    let ok = match k {
                        HK::MpscTx | HK::OneTx | HK::WatchTx | HK::LrTx | HK::BinTx => org.split(',').any(|t| t == expect_at_origin) || org.starts_with("err") || rem.starts_with("err"),
                        HK::MpscRx => rem.split(',').any(|t| t == expect_at_remote) || rem.contains("err") || org.starts_with("err"),
                        _ => rem.split(',').any(|t| t == expect_at_remote) || rem.contains("err") || org.starts_with("err"),
                    };
                    if !ok {
                        v.fail("C05", format!("label-not-delivered:{k:?}"), format!("half {i} ({k:?}): origin {org}, travelling side {rem}"));
                    }
                    if preload && *k == HK::MpscRx && !rem.contains("err") && !rem.starts_with(&format!("{},{}", 3000 + i, 2000 + i)) {
                        v.fail("C05", "queued-items-lost-on-handover", format!("half {i}: receiver handed over with a queued item observed {rem}"));
                    }
                    let connected_ok = !org.contains("err") && !rem.contains("err");
                    if max_ports >= 64 && !connected_ok {
                        v.fail("C05", format!("half-not-connected:{k:?}"), format!("half {i} ({k:?}) failed without any resource limit: origin {org}, travelling side {rem}; send {:?} recv {:?}", o.send_result, o.recv_result));
                    }
                }
                if o.recv_result.iter().any(|r| r == "error-storm") {
                    v.fail("C05", "receiver-error-storm", format!("the receiving channel reports the same failure for ever: {:?}", o.recv_result));
                }
                if max_ports >= 64 && (!value_arrived || o.send_result.as_deref() != Some("ok")) {
                    v.fail("C05", "value-not-delivered", format!("send {:?}; recv {:?}; delivered {}", o.send_result, o.recv_result, o.delivered));
                }
            }
            v.outcome = format!("{:?}|{:?}|{:?}|{:?}|{:?}", o.origin, o.remote, o.send_result, o.recv_result, out.ending);
            v.nontrivial = o.delivered > 0;
            v
        });
        (Box::pin(root), judge)
    }
}

fn mk(kinds: Vec<HK>, shape: u8, hops: u8, preload: bool, max_ports: u32, rb: u32) -> Arc<dyn Scenario> {
    Arc::new(HalvesScenario { kinds, shape, hops, preload, max_ports, max_ports_last: max_ports, rb, bulk: 0 })
}

fn mk_last(kinds: Vec<HK>, shape: u8, hops: u8, max_ports_last: u32) -> Arc<dyn Scenario> {
    Arc::new(HalvesScenario { kinds, shape, hops, preload: false, max_ports: 64, max_ports_last, rb: 256, bulk: 0 })
}

pub fn grid(tier: Tier) -> Vec<Arc<dyn Scenario>> {
    let mut out = Vec::new();
    let max_hops = if tier == Tier::Quick { 2 } else { 3 };
    // one half: every kind x shape x hops x preload
    for k in ALL_KINDS {
        for shape in 0..5u8 {
            for hops in 1..=max_hops {
                out.push(mk(vec![k], shape, hops, false, 64, 256));
            }
        }
        out.push(mk(vec![k], 0, 1, true, 64, 256));
        out.push(mk(vec![k], 0, 2, true, 64, 9));
    }
    // a half in front of bulk data that pushes the value over max_data_size (serialized twice: buffered attempt, then streamed)
    for k in ALL_KINDS {
        for (shape, hops) in [(0u8, 1u8), (3, 1), (1, 2)] {
            out.push(Arc::new(HalvesScenario { kinds: vec![k], shape, hops, preload: false, max_ports: 64, max_ports_last: 64, rb: 256, bulk: 6000 }));
        }
    }
    // two halves: all ordered pairs
    for a in ALL_KINDS {
        for b in ALL_KINDS {
            out.push(mk(vec![a, b], ((a as u8) + (b as u8)) % 5, 1, false, 64, 256));
            if tier == Tier::Thorough {
                out.push(mk(vec![a, b], ((a as u8) * 3 + (b as u8)) % 5, 2, true, 64, 64));
            }
        }
    }
    // three / four halves: rotating selections
    for s in 0..ALL_KINDS.len() {
        let ks: Vec<HK> = (0..3).map(|j| ALL_KINDS[(s + j * 3) % ALL_KINDS.len()]).collect();
        out.push(mk(ks.clone(), (s % 5) as u8, 1, s % 2 == 0, 64, 256));
        out.push(mk(ks.clone(), ((s + 1) % 5) as u8, 2, false, 64, 12));
        if tier == Tier::Thorough {
            let mut k4 = ks.clone();
            k4.push(ALL_KINDS[(s + 5) % ALL_KINDS.len()]);
            out.push(mk(k4, ((s + 2) % 5) as u8, 3, true, 64, 256));
        }
        // port exhaustion on the receiving endpoint only (a second value follows the failing one)
        for mp in [2u32, 3, 4] {
            out.push(mk_last(ks.clone(), (s % 5) as u8, 1, mp));
            out.push(mk_last(ks.clone(), ((s + 3) % 5) as u8, 2, mp));
        }
        // port exhaustion on every endpoint: 1 base port per connection is in use already
        for mp in [2u32, 3, 4] {
            out.push(mk(ks.clone(), (s % 5) as u8, 1, false, mp, 256));
            out.push(mk(ks.clone(), (s % 5) as u8, 2, false, mp + 1, 256));
        }
    }
    out
}

pub fn core(tier: Tier) -> Vec<Arc<dyn Scenario>> {
    let mut out = vec![
        mk(vec![HK::MpscTx, HK::MpscRx], 0, 1, true, 64, 64),
        mk(vec![HK::OneTx, HK::WatchRx], 3, 1, true, 64, 64),
        mk(vec![HK::LrTx, HK::BinRx], 2, 1, false, 64, 64),
        mk(vec![HK::MpscTx, HK::OneRx], 1, 2, false, 64, 64),
        mk(vec![HK::BcastRx, HK::WatchTx], 4, 1, false, 64, 64),
        mk(vec![HK::MpscRx, HK::LrRx, HK::BinTx], 0, 1, false, 3, 64),
    ];
    if tier == Tier::Thorough {
        out.push(mk(vec![HK::MpscTx, HK::MpscRx, HK::OneTx], 0, 2, true, 64, 16));
    }
    out
}

pub fn all_scenarios(tier: Tier) -> Vec<Arc<dyn Scenario>> {
    let mut v = grid(tier);
    v.extend(core(tier));
    v
}

pub fn run(tier: Tier, seed: u64) -> i32 {
    let mut rep = Report::new("C05", tier, seed);
    let known = known_sigs("C05");
    let q = tier == Tier::Quick;
    let p0 = Params { max_dev: 0, seeds: vec![seed, seed + 1], time_limit: Duration::from_secs(if q { 25 } else { 600 }), ..Default::default() };
    rep.add("value shapes x half kinds x hops x port limits x low credit at d=0", explore("C05", grid(tier), p0, &known));
    let p = Params { max_dev: 2, seeds: vec![seed], time_limit: Duration::from_secs(if q { 25 } else { 900 }), ..Default::default() };
    rep.add("core shapes under schedule exploration", explore("C05", core(tier), p, &known));
    rep.rule = "a case = (kinds of the 1..4 channel halves, container shape: vec / option+vec / map / tuple+enum / nested enum of options, hops 1..3, hand-over with queued items, max_ports incl. exhaustion, receive buffer, schedule deviations); every half is exercised with a label unique to its channel; distinct = distinct (labels observed per half on both sides, send/recv results); non-trivial = the value reached the last endpoint".into();
    rep.assumptions = vec![
        "values stay below max_data_size so that no helper thread is involved (schedule fully controlled)".into(),
        "hook H2 re-uses small port numbers on every connection, so wiring by number instead of by request would cross channels".into(),
    ];
    rep.finish()
}
