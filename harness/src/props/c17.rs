//! C17 Remote read/write lock: exclusion, latest-committed reads, no deadlock.

use futures::future::BoxFuture;
use remoc::{codec, robj::rw_lock::{Owner, RwLock}};
use serde::{Deserialize, Serialize};
use std::{sync::Arc, time::Duration};

use super::c04::{base_pair, carrier_cfg};
use crate::{
    explore::{Params, explore},
    net::LinkOpts,
    report::{Report, Tier, known_sigs},
    util::{Shared, panic_findings, shared, yield_once},
    world::{Ending, Env, Judge, Outcome, Scenario, Verdict},
};

type C = codec::Default;

#[derive(Debug, Clone, Copy, PartialEq, Eq)]
pub enum Op {
    /// read, hold the guard across `h` scheduling points, release
    Read(u8),
    /// write, set the value, commit
    Write(u32),
    /// write, modify locally, drop the guard without committing
    WriteDrop,
    /// wait for quiescence
    Settle,
    /// let k other scheduling steps pass (shifts this handle's next operation in time)
    Delay(u8),
}

#[derive(Debug, Clone)]
pub struct Rec {
    pub handle: u8,
    pub op: Op,
    pub start: u32,
    pub acquired: Option<u32>,
    pub released: Option<u32>,
    pub value: Option<u32>,
    pub result: String,
}

#[derive(Default)]
struct Obs {
    hist: Vec<Rec>,
    err: Option<String>,
    final_value: Option<u32>,
    pending: Vec<String>,
}

#[derive(Debug, Clone, PartialEq, Eq)]
pub struct LockScenario {
    /// scripts per handle: 0,1 = clones on the owner's endpoint (shared cache), 2,3 = separately sent to B
    pub scripts: Vec<Vec<Op>>,
    /// cut B's connection after its handles performed that many acquisitions (None = healthy)
    pub cut_b_while_holding: Option<Op>,
}

/// Value kept in the lock. The value `POISON` serializes but cannot be decoded: a commit of it by a
/// remote handle cannot reach the owner although the connection is fine.
#[derive(Clone, Copy, Debug, PartialEq, Eq, Serialize)]
pub struct LV(pub u32);
pub const POISON: u32 = 666;

impl<'de> Deserialize<'de> for LV {
    fn deserialize<D: serde::Deserializer<'de>>(d: D) -> Result<Self, D::Error> {
        let v = u32::deserialize(d)?;
        if v == POISON { Err(serde::de::Error::custom("value cannot be decoded")) } else { Ok(LV(v)) }
    }
}

async fn run_handle(env: Env, id: u8, lock: RwLock<LV>, script: Vec<Op>, obs: Shared<Obs>) {
    for op in script {
        let start = env.step();
        let idx = {
            let mut o = obs.lock().unwrap();
            o.hist.push(Rec { handle: id, op, start, acquired: None, released: None, value: None, result: "pending".into() });
            o.hist.len() - 1
        };
        match op {
            Op::Settle => {
                env.quiesce().await;
                obs.lock().unwrap().hist[idx].result = "ok".into();
            }
            Op::Delay(k) => {
                for _ in 0..k {
                    yield_once().await;
                }
                obs.lock().unwrap().hist[idx].result = "ok".into();
            }
            Op::Read(h) => match lock.read().await {
                Ok(g) => {
                    {
                        let mut o = obs.lock().unwrap();
                        o.hist[idx].acquired = Some(env.step());
                        o.hist[idx].value = Some(g.0);
                    }
                    for _ in 0..h {
                        yield_once().await;
                    }
                    let v2 = g.0;
                    drop(g);
                    let mut o = obs.lock().unwrap();
                    o.hist[idx].released = Some(env.step());
                    o.hist[idx].result = if Some(v2) == o.hist[idx].value { "ok".into() } else { "changed-under-read-guard".into() };
                }
                Err(e) => obs.lock().unwrap().hist[idx].result = format!("err:{e:?}").chars().take(40).collect(),
            },
            Op::Write(v) => match lock.write().await {
                Ok(mut g) => {
                    {
                        let mut o = obs.lock().unwrap();
                        o.hist[idx].acquired = Some(env.step());
                        o.hist[idx].value = Some(g.0);
                    }
                    *g = LV(v);
                    yield_once().await;
                    // the guard ceases to exist when commit() consumes it
                    obs.lock().unwrap().hist[idx].released = Some(env.step());
                    let r = g.commit().await;
                    let mut o = obs.lock().unwrap();
                    o.hist[idx].result = match r {
                        Ok(()) => "committed".into(),
                        Err(e) => format!("commit-err:{e:?}"),
                    };
                }
                Err(e) => obs.lock().unwrap().hist[idx].result = format!("err:{e:?}").chars().take(40).collect(),
            },
            Op::WriteDrop => match lock.write().await {
                Ok(mut g) => {
                    {
                        let mut o = obs.lock().unwrap();
                        o.hist[idx].acquired = Some(env.step());
                        o.hist[idx].value = Some(g.0);
                    }
                    *g = LV(9999);
                    yield_once().await;
                    drop(g);
                    let mut o = obs.lock().unwrap();
                    o.hist[idx].released = Some(env.step());
                    o.hist[idx].result = "dropped".into();
                }
                Err(e) => obs.lock().unwrap().hist[idx].result = format!("err:{e:?}").chars().take(40).collect(),
            },
        }
    }
}

impl Scenario for LockScenario {
    fn id(&self) -> String {
        format!("c17/{:?}/cut{:?}", self.scripts, self.cut_b_while_holding)
    }

    fn start(&self, env: Env) -> (BoxFuture<'static, ()>, Judge) {
        let obs = shared(Obs::default());
        let p = self.clone();
        let o2 = obs.clone();
        let root = async move {
            env.explore(false);
            let link = LinkOpts { capacity: 2, deliver_cap: 2, eof_on_drop: true };
            let ab = base_pair::<RwLock<LV>, RwLock<LV>, (), ()>(&env, carrier_cfg(), carrier_cfg(), link).await;
            let ((mut a_tx, _a_rx, k1, k2), (_b_tx, mut b_rx, k3, k4)) = match ab {
                Ok(x) => x,
                Err(e) => {
                    o2.lock().unwrap().err = Some(e);
                    return;
                }
            };
            let owner = Owner::<LV, C>::new(LV(0));
            let local = owner.rw_lock();
            // two independent instances on B (each has its own cache)
            let mut remote = Vec::new();
            for _ in 0..2 {
                let (s, r) = tokio::join!(a_tx.send(owner.rw_lock()), b_rx.recv());
                match (s, r) {
                    (Ok(()), Ok(Some(l))) => remote.push(l),
                    _ => {
                        o2.lock().unwrap().err = Some("ship lock".into());
                        return;
                    }
                }
            }
            env.quiesce().await;
            env.explore(true);
            let mut tasks = Vec::new();
            for (i, script) in p.scripts.iter().enumerate() {
                if script.is_empty() {
                    continue;
                }
                let (lock, tag) = match i {
                    0 | 1 => (local.clone(), 1),
                    _ => (remote[i - 2].clone(), 2),
                };
                tasks.push((i, env.spawn(&format!("handle{i}"), tag, run_handle(env.clone(), i as u8, lock, script.clone(), o2.clone()))));
            }
            if let Some(hold) = p.cut_b_while_holding {
                // handle 3 on B acquires a guard and keeps it while its connection is cut
                let (lock, o3, env3) = (remote[1].clone(), o2.clone(), env.clone());
                env.spawn("holder", 2, async move {
                    let start = env3.step();
                    match hold {
                        Op::Read(_) => {
                            if let Ok(g) = lock.read().await {
                                o3.lock().unwrap().hist.push(Rec { handle: 9, op: hold, start, acquired: Some(env3.step()), released: None, value: Some(g.0), result: "held-by-lost-endpoint".into() });
                                env3.dir(0, 0).cut();
                                env3.dir(0, 1).cut();
                                futures::future::pending::<()>().await;
                            }
                        }
                        _ => {
                            if let Ok(g) = lock.write().await {
                                o3.lock().unwrap().hist.push(Rec { handle: 9, op: hold, start, acquired: Some(env3.step()), released: None, value: Some(g.0), result: "held-by-lost-endpoint".into() });
                                env3.dir(0, 0).cut();
                                env3.dir(0, 1).cut();
                                futures::future::pending::<()>().await;
                            }
                        }
                    }
                });
            }
            // Everything must finish on its own: every guard is released by its script.
            let deadline = tokio::time::Instant::now() + Duration::from_secs(60);
            for (i, t) in tasks {
                if tokio::time::timeout_at(deadline, t).await.is_err() {
                    o2.lock().unwrap().pending.push(format!("handle{i}"));
                }
            }
            env.explore(false);
            // final value as seen by the owner's endpoint
            if o2.lock().unwrap().pending.is_empty() {
                if let Ok(Ok(g)) = tokio::time::timeout(Duration::from_secs(20), local.read()).await {
                    o2.lock().unwrap().final_value = Some(g.0);
                }
            }
            drop((remote, local, owner, a_tx, b_rx, k1, k2, k3, k4));
        };
        let p = self.clone();
        let judge: Judge = Box::new(move |out: &Outcome| {
            let o = obs.lock().unwrap();
            let mut v = Verdict::default();
            v.findings.extend(panic_findings(out, "C17"));
            if let Some(e) = &o.err {
                v.fail("C17", "setup-failed", e.clone());
            } else if out.ending != Ending::Completed {
                v.fail("C17", "lock-scenario-stuck", format!("{:?}", out.ending));
            } else {
                let lost = p.cut_b_while_holding.is_some();
                if !o.pending.is_empty() {
                    let pend: Vec<String> = o.hist.iter().filter(|r| r.result == "pending").map(|r| format!("h{}:{:?}", r.handle, r.op)).collect();
                    // handles on the endpoint whose connection was cut may legitimately fail, but must not hang either
                    v.fail(
                        "C17",
                        "request-never-completes",
                        format!("every guard was released, yet {:?} never completed (pending ops {pend:?}); history {:?}", o.pending, o.hist),
                    );
                }
                // exclusion on the surviving endpoints
                let held: Vec<&Rec> = o.hist.iter().filter(|r| r.acquired.is_some() && !(lost && r.handle >= 2)).collect();
                for (i, a) in held.iter().enumerate() {
                    for b in held.iter().skip(i + 1) {
                        let a_w = matches!(a.op, Op::Write(_) | Op::WriteDrop);
                        let b_w = matches!(b.op, Op::Write(_) | Op::WriteDrop);
                        if !(a_w || b_w) {
                            continue;
                        }
                        let (a0, a1) = (a.acquired.unwrap(), a.released.unwrap_or(u32::MAX));
                        let (b0, b1) = (b.acquired.unwrap(), b.released.unwrap_or(u32::MAX));
                        if a0 < b1 && b0 < a1 {
                            v.fail("C17", "write-guard-not-exclusive", format!("guards overlap: {a:?} and {b:?}"));
                        }
                    }
                }
                if o.hist.iter().any(|r| r.result == "changed-under-read-guard") {
                    v.fail("C17", "value-changed-under-read-guard", format!("{:?}", o.hist));
                }
                if !lost {
                    // commits in guard order
                    let mut commits: Vec<&Rec> = o.hist.iter().filter(|r| r.result == "committed").collect();
                    commits.sort_by_key(|r| r.acquired.unwrap());
                    // a write guard must see the latest committed value
                    let mut cur = 0u32;
                    let mut writes: Vec<&Rec> = o.hist.iter().filter(|r| matches!(r.op, Op::Write(_) | Op::WriteDrop) && r.acquired.is_some()).collect();
                    writes.sort_by_key(|r| r.acquired.unwrap());
                    for w in &writes {
                        if w.value != Some(cur) {
                            v.fail("C17", "write-guard-saw-stale-value", format!("{w:?} obtained {:?} but the latest committed value was {cur}", w.value));
                        }
                        if let (Op::Write(nv), "committed") = (w.op, w.result.as_str()) {
                            cur = nv;
                        }
                    }
                    // reads: value must be the value of the latest commit at some instant within [start, acquired]
                    for r in o.hist.iter().filter(|r| matches!(r.op, Op::Read(_)) && r.acquired.is_some()) {
                        let (rs, re) = (r.start, r.acquired.unwrap());
                        // candidate values: initial or commits; value c_i is current from release(c_i) until release(c_{i+1})
                        let mut ok = false;
                        let mut from = 0u32; // instant at which the candidate became current
                        let mut cand = 0u32;
                        for (k, c) in commits.iter().enumerate() {
                            let until = c.released.unwrap();
                            // candidate `cand` is current during [from, until]
                            if r.value == Some(cand) && from <= re && until >= rs {
                                ok = true;
                            }
                            // while the commit is in progress either value is acceptable for overlapping reads
                            if let Op::Write(nv) = c.op {
                                cand = nv;
                            }
                            from = c.acquired.unwrap();
                            let _ = k;
                        }
                        if r.value == Some(cand) && from <= re {
                            ok = true;
                        }
                        if !ok {
                            v.fail("C17", "read-returned-stale-or-unknown-value", format!("{r:?}; commits {:?}", commits.iter().map(|c| (c.op, c.acquired, c.released)).collect::<Vec<_>>()));
                        }
                    }
                    if o.pending.is_empty() && o.final_value != Some(cur) {
                        v.fail("C17", "commit-lost", format!("final value {:?}, last committed {cur}; history {:?}", o.final_value, o.hist));
                    }
                    for r in o.hist.iter().filter(|r| r.result.starts_with("err") || r.result.starts_with("commit-err")) {
                        // committing a value the owner cannot decode must fail (and then counts as not committed)
                        if r.op == Op::Write(POISON) && r.result.starts_with("commit-err") {
                            continue;
                        }
                        v.fail("C17", "lock-operation-failed", format!("{r:?}"));
                    }
                }
            }
            v.outcome = format!("{:?}|{:?}|{:?}", o.hist.iter().map(|r| (r.handle, r.op, r.value, r.result.clone())).collect::<Vec<_>>(), o.final_value, o.pending);
            v.nontrivial = o.hist.iter().filter(|r| r.acquired.is_some()).count() >= 2;
            v
        });
        (Box::pin(root), judge)
    }
}

fn mk(scripts: Vec<Vec<Op>>, cut: Option<Op>) -> Arc<dyn Scenario> {
    Arc::new(LockScenario { scripts, cut_b_while_holding: cut })
}

pub fn grid(tier: Tier) -> Vec<Arc<dyn Scenario>> {
    let mut out = Vec::new();
    let ops = [Op::Read(0), Op::Read(2), Op::Write(7), Op::WriteDrop];
    // two handles, one op each, all placements (local/local, local/remote, remote/remote, same cache or not)
    let placements: [(usize, usize); 4] = [(0, 1), (0, 2), (2, 3), (2, 0)];
    for (ha, hb) in placements {
        for a in ops {
            for b in ops {
                let mut s = vec![vec![], vec![], vec![], vec![]];
                s[ha] = vec![a];
                s[hb] = vec![match b {
                    Op::Write(_) => Op::Write(8),
                    x => x,
                }];
                out.push(mk(s.clone(), None));
                // warm caches first
                let mut w = s.clone();
                w[ha].insert(0, Op::Read(0));
                w[ha].insert(1, Op::Settle);
                w[hb].insert(0, Op::Read(0));
                w[hb].insert(1, Op::Settle);
                out.push(mk(w, None));
            }
        }
    }
    // a remote handle commits a value the owner cannot decode: the commit must fail and change nothing
    out.push(mk(vec![vec![], vec![], vec![Op::Write(POISON), Op::Read(0)], vec![Op::Settle, Op::Read(0)]], None));
    out.push(mk(vec![vec![Op::Read(0), Op::Settle, Op::Read(0)], vec![], vec![Op::Write(5), Op::Write(POISON)], vec![Op::Settle, Op::Read(0)]], None));
    out.push(mk(vec![vec![Op::Write(1)], vec![], vec![Op::Settle, Op::Write(POISON)], vec![Op::Settle, Op::Settle, Op::Write(2), Op::Read(0)]], None));
    out.push(mk(vec![vec![Op::Settle, Op::Read(0)], vec![], vec![Op::Write(POISON)], vec![Op::Write(POISON)]], None));
    // three and four handles
    let n3 = if tier == Tier::Quick { 1 } else { 3 };
    for k in 0..n3 {
        out.push(mk(vec![vec![Op::Read(1 + k)], vec![Op::Write(5)], vec![Op::Read(2), Op::Read(0)], vec![Op::Write(6)]], None));
        out.push(mk(vec![vec![Op::Read(0), Op::Settle, Op::Read(3)], vec![Op::Settle, Op::Write(5)], vec![Op::Settle, Op::Read(1 + k)], vec![]], None));
        out.push(mk(vec![vec![Op::Write(1), Op::Read(0)], vec![Op::WriteDrop], vec![Op::Read(0), Op::Write(2)], vec![Op::Read(k)]], None));
    }
    // loss of a lock holder's connection
    for hold in [Op::Read(0), Op::Write(0)] {
        out.push(mk(vec![vec![Op::Settle, Op::Write(3), Op::Read(0)], vec![Op::Settle, Op::Read(1)], vec![], vec![]], Some(hold)));
    }
    out
}

pub fn sweep(tier: Tier) -> Vec<Arc<dyn Scenario>> {
    let mut out = Vec::new();
    // timing sweep: a write on one handle shifted by k steps against a (cold or warm) read on another
    let kmax = if tier == Tier::Quick { 24 } else { 40 };
    for (hr, hw) in [(2usize, 0usize), (2, 3), (0, 2), (0, 1)] {
        for k in 0..kmax {
            let mut s = vec![vec![], vec![], vec![], vec![]];
            s[hr] = vec![Op::Read(1), Op::Read(0)];
            s[hw] = vec![Op::Delay(k), Op::Write(5)];
            out.push(mk(s.clone(), None));
            let mut w = vec![vec![], vec![], vec![], vec![]];
            w[hr] = vec![Op::Delay(k), Op::Read(1)];
            w[hw] = vec![Op::Write(5), Op::Write(6)];
            out.push(mk(w, None));
        }
    }
    out
}

pub fn core(_tier: Tier) -> Vec<Arc<dyn Scenario>> {
    vec![
        // a reader polled between the owner's invalidation and its cache monitor
        mk(vec![vec![Op::Read(3)], vec![Op::Write(5)], vec![], vec![]], None),
        mk(vec![vec![Op::Read(0), Op::Settle, Op::Read(2)], vec![Op::Settle, Op::Write(5)], vec![Op::Settle, Op::Read(0)], vec![]], None),
        mk(vec![vec![], vec![Op::Write(5)], vec![Op::Read(0), Op::Settle, Op::Read(2)], vec![Op::Settle, Op::Read(1)]], None),
        mk(vec![vec![Op::Write(1)], vec![Op::Write(2)], vec![Op::Write(3)], vec![Op::Read(0)]], None),
        // cold remote read racing with a local write
        mk(vec![vec![], vec![Op::Write(5)], vec![Op::Read(1)], vec![]], None),
    ]
}

// ---- reads on an endpoint that lost its connection to the owner ----

/// B warms its read cache (or not), loses its connection, the owner's endpoint commits a new value,
/// and B reads again: it must get an error (it cannot know the current value), never the old value.
pub struct StaleAfterCutScenario {
    pub warm: bool,
    /// B still holds its first read guard while the connection is cut
    pub hold_during_cut: bool,
}

#[derive(Default)]
struct SObs {
    err: Option<String>,
    first: Option<String>,
    write: Option<String>,
    later_reads: Vec<String>,
}

impl Scenario for StaleAfterCutScenario {
    fn id(&self) -> String {
        format!("c17-cut/warm{}/hold{}", self.warm as u8, self.hold_during_cut as u8)
    }

    fn start(&self, env: Env) -> (BoxFuture<'static, ()>, Judge) {
        let obs = shared(SObs::default());
        let o2 = obs.clone();
        let (warm, hold) = (self.warm, self.hold_during_cut);
        let root = async move {
            env.explore(false);
            let link = LinkOpts { capacity: 2, deliver_cap: 2, eof_on_drop: true };
            let ab = base_pair::<RwLock<LV>, RwLock<LV>, (), ()>(&env, carrier_cfg(), carrier_cfg(), link).await;
            let ((mut a_tx, _a_rx, k1, k2), (_b_tx, mut b_rx, k3, k4)) = match ab {
                Ok(x) => x,
                Err(e) => {
                    o2.lock().unwrap().err = Some(e);
                    return;
                }
            };
            let owner = Owner::<LV, C>::new(LV(1));
            let local = owner.rw_lock();
            let (s, r) = tokio::join!(a_tx.send(owner.rw_lock()), b_rx.recv());
            let remote = match (s, r) {
                (Ok(()), Ok(Some(l))) => l,
                _ => {
                    o2.lock().unwrap().err = Some("ship lock".into());
                    return;
                }
            };
            env.quiesce().await;
            let mut held = None;
            if warm {
                match tokio::time::timeout(Duration::from_secs(20), remote.read()).await {
                    Ok(Ok(g)) => {
                        o2.lock().unwrap().first = Some(format!("Ok({})", g.0));
                        if hold {
                            held = Some(g);
                        }
                    }
                    Ok(Err(e)) => o2.lock().unwrap().first = Some(format!("Err({e:?})")),
                    Err(_) => o2.lock().unwrap().first = Some("hang".into()),
                }
                env.quiesce().await;
            }
            env.dir(0, 0).cut();
            env.dir(0, 1).cut();
            env.quiesce().await;
            drop(held);
            env.quiesce().await;
            // the owner's endpoint moves on
            let w = tokio::time::timeout(Duration::from_secs(30), async {
                let mut g = local.write().await.map_err(|e| format!("{e:?}"))?;
                *g = LV(7);
                g.commit().await.map_err(|e| format!("{e:?}"))
            })
            .await;
            o2.lock().unwrap().write = Some(match w {
                Err(_) => "hang".into(),
                Ok(Ok(())) => "committed".into(),
                Ok(Err(e)) => format!("err:{e}"),
            });
            env.quiesce().await;
            for _ in 0..2 {
                let r = tokio::time::timeout(Duration::from_secs(30), remote.read()).await;
                o2.lock().unwrap().later_reads.push(match r {
                    Err(_) => "hang".into(),
                    Ok(Ok(g)) => format!("Ok({})", g.0),
                    Ok(Err(_)) => "err".into(),
                });
                env.quiesce().await;
            }
            drop((remote, local, owner, a_tx, b_rx, k1, k2, k3, k4));
        };
        let judge: Judge = Box::new(move |out: &Outcome| {
            let o = obs.lock().unwrap();
            let mut v = Verdict::default();
            v.findings.extend(panic_findings(out, "C17"));
            if let Some(e) = &o.err {
                v.fail("C17", "setup-failed", e.clone());
            } else if out.ending != Ending::Completed {
                v.fail("C17", "lock-scenario-stuck", format!("{:?}", out.ending));
            } else {
                let ctx = format!("first read {:?}, write on the owner's endpoint after the cut {:?}, reads on the cut-off endpoint afterwards {:?}", o.first, o.write, o.later_reads);
                if warm && o.first.as_deref() != Some("Ok(1)") {
                    v.fail("C17", "lock-operation-failed", ctx.clone());
                }
                if o.write.as_deref() != Some("committed") {
                    v.fail("C17", "write-blocked-by-lost-holder", ctx.clone());
                }
                for r in &o.later_reads {
                    match r.as_str() {
                        "err" | "Ok(7)" => {}
                        "hang" => v.fail("C17", "request-never-completes", ctx.clone()),
                        _ => v.fail("C17", "stale-read-after-connection-loss", ctx.clone()),
                    }
                }
            }
            v.outcome = format!("{:?}|{:?}|{:?}", o.first, o.write, o.later_reads);
            v.nontrivial = true;
            v
        });
        (Box::pin(root), judge)
    }
}

pub fn cut_scenarios() -> Vec<Arc<dyn Scenario>> {
    vec![
        Arc::new(StaleAfterCutScenario { warm: false, hold_during_cut: false }),
        Arc::new(StaleAfterCutScenario { warm: true, hold_during_cut: false }),
        Arc::new(StaleAfterCutScenario { warm: true, hold_during_cut: true }),
    ]
}

pub fn all_scenarios(tier: Tier) -> Vec<Arc<dyn Scenario>> {
    let mut v = grid(tier);
    v.extend(sweep(tier));
    v.extend(core(tier));
    v.extend(cut_scenarios());
    v
}

pub fn run(tier: Tier, seed: u64) -> i32 {
    let mut rep = Report::new("C17", tier, seed);
    let known = known_sigs("C17");
    let q = tier == Tier::Quick;
    let p0 = Params { max_dev: if q { 0 } else { 2 }, seeds: vec![seed, seed + 1], time_limit: Duration::from_secs(if q { 10 } else { 900 }), ..Default::default() };
    rep.add("handle placements x operation pairs (cold and warm caches), 3-4 handles, loss of a holder", explore("C17", grid(tier), p0.clone(), &known));
    let pc = Params { max_dev: if q { 1 } else { 2 }, seeds: vec![seed], time_limit: Duration::from_secs(if q { 8 } else { 300 }), ..Default::default() };
    rep.add("reads on an endpoint that lost its connection after the owner's endpoint committed a new value (cold / warm cache, guard held across the cut)", explore("C17", cut_scenarios(), pc, &known));
    let ps = Params { max_dev: if q { 1 } else { 2 }, seeds: vec![seed], time_limit: Duration::from_secs(if q { 20 } else { 900 }), ..Default::default() };
    rep.add("timing sweep: write shifted by k steps against a cold/warm read on another handle, with one further deviation", explore("C17", sweep(tier), ps, &known));
    let p = Params { max_dev: if q { 2 } else { 4 }, preempt_cap: 8, seeds: vec![seed], time_limit: Duration::from_secs(if q { 15 } else { 1200 }), ..Default::default() };
    rep.add("core races under schedule exploration with preemption injection", explore("C17", core(tier), p, &known));
    rep.rule = "a case = (scripts of <= 3 operations per handle over {read and hold h steps, write+commit v, write+drop} for 2 clones on the owner's endpoint sharing a cache and 2 independently sent handles on a remote endpoint, cold or warm caches, loss of the connection of an endpoint holding a read or write guard, schedule deviations incl. preemption inside polls); oracle on the timed history: no write guard overlaps another guard, write guards see the latest commit, reads return a value current at some instant of the call, commits never lost, dropped write guards change nothing, every request completes; distinct = distinct histories; non-trivial = at least two guards were acquired".into();
    rep.assumptions = vec!["guard intervals are measured with the scheduler's step counter".into(), "when a holder's connection is cut, exclusion is judged for the surviving endpoint only".into()];
    rep.finish()
}
