//! C10 Every port-open request resolves exactly once and pairs the right ports.

use bytes::Bytes;
use futures::future::BoxFuture;
use remoc::chmux::{self, Cfg, ConnectError, PortReq, Received};
use std::{collections::BTreeMap, sync::Arc, time::Duration};

use crate::{
    explore::{Params, explore},
    net::LinkOpts,
    report::{Report, Tier, known_sigs},
    util::{Cancelled, Shared, cancel_at, ledger_findings, panic_findings, poll_once, shared},
    world::{Ending, Env, Judge, Outcome, Scenario, Verdict, cfg},
};

#[derive(Debug, Clone, Copy, PartialEq, Eq)]
pub enum CKind {
    /// `Client::connect_ext(id, wait = true)`
    Wait,
    /// `Client::connect_ext(id, wait = false)`
    NoWait,
    /// plain `Client::connect()` (id = port number)
    Plain,
    /// `Sender::connect` over an existing port.
    OverPort(bool),
    /// `connect_ext(wait)` whose future is dropped at its p-th poll.
    CancelWait(u32),
}

#[derive(Debug, Clone, Copy, PartialEq, Eq)]
pub enum LAct {
    Accept,
    InspectAccept,
    InspectReject(bool),
    InspectDrop,
    /// `listener.accept()` dropped at its p-th poll; the request (if any was taken) is lost to the drop.
    CancelAccept(u32),
    /// `request.accept()` dropped at its p-th poll.
    InspectCancelAccept(u32),
}

#[derive(Debug, Clone, PartialEq, Eq)]
enum Truth {
    Accepted,
    Rejected(bool),
    Dropped,
    /// accept() of the listener decided itself (may auto-reject no-wait requests without ports)
    Auto,
    /// The accept future was dropped part-way: the request counts as dropped, or as accepted with
    /// the resulting port dropped at once.
    AcceptCancelled,
}

#[derive(Default)]
struct Obs {
    /// per request index: result string
    results: BTreeMap<usize, String>,
    /// id -> what the listener did
    truth: BTreeMap<u32, Truth>,
    /// id -> label received by B-side handle
    b_got: BTreeMap<u32, String>,
    /// request index -> label received back by A
    a_got: BTreeMap<usize, String>,
    listener_log: Vec<String>,
    err: Option<String>,
    resolved_before_teardown: usize,
    total: usize,
    cancelled_accepts: usize,
}

pub struct ConnScenario {
    pub kinds: Vec<CKind>,
    pub lscript: Vec<LAct>,
    pub max_ports: [u32; 2],
    pub cq: u16,
}

fn id_of(i: usize) -> u32 {
    100 + i as u32
}

async fn exchange_a(i: usize, pair: (chmux::Sender, chmux::Receiver), obs: &Shared<Obs>) -> (chmux::Sender, chmux::Receiver) {
    let (mut tx, mut rx) = pair;
    let _ = tx.send(Bytes::from(format!("req{i}"))).await;
    if let Ok(Some(m)) = rx.recv().await {
        let b: Bytes = m.into();
        obs.lock().unwrap().a_got.insert(i, String::from_utf8_lossy(&b).to_string());
    }
    (tx, rx)
}

fn spawn_b_handler(env: &Env, id: u32, pair: (chmux::Sender, chmux::Receiver), obs: &Shared<Obs>, keep: &Shared<Vec<(chmux::Sender, chmux::Receiver)>>) {
    let (obs, keep) = (obs.clone(), keep.clone());
    env.spawn(&format!("b-handler{id}"), 2, async move {
        let (mut tx, mut rx) = pair;
        let _ = tx.send(Bytes::from(format!("id{id}"))).await;
        if let Ok(Some(m)) = rx.recv().await {
            let b: Bytes = m.into();
            obs.lock().unwrap().b_got.insert(id, String::from_utf8_lossy(&b).to_string());
        }
        keep.lock().unwrap().push((tx, rx));
    });
}

async fn handle_request(env: &Env, req: chmux::Request, act: LAct, obs: &Shared<Obs>, keep: &Shared<Vec<(chmux::Sender, chmux::Receiver)>>) {
    let id = req.id();
    match act {
        LAct::InspectReject(np) => {
            obs.lock().unwrap().truth.insert(id, Truth::Rejected(np));
            req.reject(np).await;
        }
        LAct::InspectDrop => {
            obs.lock().unwrap().truth.insert(id, Truth::Dropped);
            drop(req);
        }
        LAct::InspectCancelAccept(p) => match cancel_at(req.accept(), p).await {
            Cancelled::Done(Ok(pair)) => {
                obs.lock().unwrap().truth.insert(id, Truth::Accepted);
                spawn_b_handler(env, id, pair, obs, keep);
            }
            Cancelled::Done(Err(e)) => {
                obs.lock().unwrap().listener_log.push(format!("accept-err:{e:?}"));
                obs.lock().unwrap().truth.insert(id, Truth::Auto);
            }
            Cancelled::Cancelled(_) => {
                obs.lock().unwrap().truth.insert(id, Truth::AcceptCancelled);
            }
        },
        _ => match req.accept().await {
            Ok(pair) => {
                obs.lock().unwrap().truth.insert(id, Truth::Accepted);
                spawn_b_handler(env, id, pair, obs, keep);
            }
            Err(e) => {
                obs.lock().unwrap().listener_log.push(format!("accept-err:{e:?}"));
                obs.lock().unwrap().truth.insert(id, Truth::Auto);
            }
        },
    }
}

impl Scenario for ConnScenario {
    fn id(&self) -> String {
        format!("c10/{:?}/{:?}/mp{},{}/cq{}", self.kinds, self.lscript, self.max_ports[0], self.max_ports[1], self.cq)
    }

    fn start(&self, env: Env) -> (BoxFuture<'static, ()>, Judge) {
        let obs = shared(Obs::default());
        let (kinds, lscript, max_ports, cq) = (self.kinds.clone(), self.lscript.clone(), self.max_ports, self.cq);
        let mk = |mp: u32| Cfg { max_ports: mp, connect_queue: cq, ..cfg(8, 16, 32, 2, 2) };
        let (cfg_a, cfg_b) = (mk(max_ports[0]), mk(max_ports[1]));
        let o2 = obs.clone();
        let kinds2 = kinds.clone();
        let root = async move {
            let kinds = kinds2;
            env.explore(false);
            let link = LinkOpts { capacity: 2, deliver_cap: 2, eof_on_drop: false };
            let ((ca, la), (cb, mut lb)) = match env.pair(cfg_a, cfg_b, link, &[]).await {
                Ok(x) => x,
                Err(e) => {
                    o2.lock().unwrap().err = Some(e);
                    return;
                }
            };
            o2.lock().unwrap().total = kinds.len();
            let keep_b: Shared<Vec<(chmux::Sender, chmux::Receiver)>> = shared(Vec::new());
            let keep_a: Shared<Vec<(chmux::Sender, chmux::Receiver)>> = shared(Vec::new());
            // Base port for requests over a port.
            let need_base = kinds.iter().any(|k| matches!(k, CKind::OverPort(_)));
            let mut base_a = None;
            let mut base_b = None;
            if need_base {
                let (c, a) = tokio::join!(ca.connect(), lb.accept());
                match (c, a) {
                    (Ok(pa), Ok(Some(pb))) => {
                        base_a = Some(pa);
                        base_b = Some(pb);
                    }
                    _ => {
                        o2.lock().unwrap().err = Some("base port".into());
                        return;
                    }
                }
            }
            env.explore(true);
            // Requests over the base port are issued by one task (the sender is exclusive).
            let over: Vec<(usize, bool)> =
                kinds.iter().enumerate().filter_map(|(i, k)| if let CKind::OverPort(w) = k { Some((i, *w)) } else { None }).collect();
            let mut req_tasks = Vec::new();
            if let Some((mut btx, brx)) = base_a {
                let (o3, env3, keep_a3) = (o2.clone(), env.clone(), keep_a.clone());
                req_tasks.push(env.spawn("req-over-port", 1, async move {
                    let kept: Vec<(chmux::Sender, chmux::Receiver)> = Vec::new();
                    let mut ports = Vec::new();
                    for (i, _) in &over {
                        match btx.port_allocator().try_allocate() {
                            Some(p) => ports.push(PortReq::new(p).with_id(id_of(*i))),
                            None => {
                                o3.lock().unwrap().results.insert(*i, "Err(LocalPortsExhausted)".into());
                            }
                        }
                    }
                    let idx: Vec<usize> = over.iter().map(|(i, _)| *i).filter(|i| !o3.lock().unwrap().results.contains_key(i)).collect();
                    let wait = over.iter().any(|(_, w)| *w);
                    match btx.connect(ports, wait).await {
                        Ok(connects) => {
                            let mut hs = Vec::new();
                            for (i, c) in idx.into_iter().zip(connects) {
                                let o4 = o3.clone();
                                hs.push(env3.spawn(&format!("req{i}"), 1, async move {
                                    match c.await {
                                        Ok(pair) => {
                                            o4.lock().unwrap().results.insert(i, "Ok".into());
                                            Some(exchange_a(i, pair, &o4).await)
                                        }
                                        Err(e) => {
                                            o4.lock().unwrap().results.insert(i, format!("Err({e:?})"));
                                            None
                                        }
                                    }
                                }));
                            }
                            for h in hs {
                                if let Ok(Some(p)) = h.await {
                                    keep_a3.lock().unwrap().push(p);
                                }
                            }
                        }
                        Err(e) => {
                            for i in idx {
                                o3.lock().unwrap().results.insert(i, format!("Err(send:{e:?})"));
                            }
                        }
                    }
                    (kept, Some((btx, brx)))
                }));
            }
            for (i, k) in kinds.iter().enumerate() {
                let (k, ca, o3, keep_a3) = (*k, ca.clone(), o2.clone(), keep_a.clone());
                if matches!(k, CKind::OverPort(_)) {
                    continue;
                }
                req_tasks.push(env.spawn(&format!("req{i}"), 1, async move {
                    let kept: Vec<(chmux::Sender, chmux::Receiver)> = Vec::new();
                    let res: Result<(chmux::Sender, chmux::Receiver), String> = async {
                        match k {
                            CKind::Plain => ca.connect().await.map_err(|e| format!("{e:?}")),
                            CKind::Wait | CKind::NoWait => {
                                let wait = k == CKind::Wait;
                                let port = if wait {
                                    ca.port_allocator().allocate().await
                                } else {
                                    ca.port_allocator().try_allocate().ok_or(format!("{:?}", ConnectError::LocalPortsExhausted))?
                                };
                                let c = ca.connect_ext(Some(PortReq::new(port).with_id(id_of(i))), wait).await.map_err(|e| format!("{e:?}"))?;
                                c.await.map_err(|e| format!("{e:?}"))
                            }
                            CKind::CancelWait(p) => {
                                // port allocation, queue credit and the request itself are all inside the dropped future
                                let fut = async {
                                    let c = ca.connect_ext(None, true).await.map_err(|e| format!("{e:?}"))?;
                                    c.await.map_err(|e| format!("{e:?}"))
                                };
                                match cancel_at(fut, p).await {
                                    Cancelled::Done(r) => r,
                                    Cancelled::Cancelled(_) => Err("cancelled".into()),
                                }
                            }
                            CKind::OverPort(_) => unreachable!(),
                        }
                    }
                    .await;
                    match res {
                        Ok(pair) => {
                            o3.lock().unwrap().results.insert(i, "Ok".into());
                            let p = exchange_a(i, pair, &o3).await;
                            keep_a3.lock().unwrap().push(p);
                        }
                        Err(e) => {
                            o3.lock().unwrap().results.insert(i, format!("Err({e})"));
                        }
                    }
                    (kept, None)
                }));
            }
            // Listener on B.
            let (o5, env5, keep5) = (o2.clone(), env.clone(), keep_b.clone());
            let lscript2 = lscript.clone();
            let listener = env.spawn("listener", 2, async move {
                for act in lscript2 {
                    match act {
                        LAct::Accept | LAct::CancelAccept(_) => {
                            let r = if let LAct::CancelAccept(p) = act {
                                match cancel_at(lb.accept(), p).await {
                                    Cancelled::Done(r) => r,
                                    Cancelled::Cancelled(_) => {
                                        let mut o = o5.lock().unwrap();
                                        o.listener_log.push("accept-cancelled".into());
                                        o.cancelled_accepts += 1;
                                        continue;
                                    }
                                }
                            } else {
                                lb.accept().await
                            };
                            match r {
                                Ok(Some(pair)) => {
                                    // id unknown to accept(): learn it from the first message
                                    let (tx, mut rx) = pair;
                                    let (o6, keep6) = (o5.clone(), keep5.clone());
                                    env5.spawn("b-handler-accept", 2, async move {
                                        let mut tx = tx;
                                        if let Ok(Some(m)) = rx.recv().await {
                                            let b: Bytes = m.into();
                                            let label = String::from_utf8_lossy(&b).to_string();
                                            let i: usize = label.trim_start_matches("req").parse().unwrap_or(999);
                                            let _ = tx.send(Bytes::from(format!("id{}", id_of(i)))).await;
                                            let mut o = o6.lock().unwrap();
                                            o.b_got.insert(id_of(i), label);
                                            o.truth.insert(id_of(i), Truth::Accepted);
                                        }
                                        keep6.lock().unwrap().push((tx, rx));
                                    });
                                }
                                Ok(None) => {
                                    o5.lock().unwrap().listener_log.push("accept-none".into());
                                    break;
                                }
                                Err(e) => {
                                    o5.lock().unwrap().listener_log.push(format!("accept-err:{e:?}"));
                                    break;
                                }
                            }
                        }
                        _ => match lb.inspect().await {
                            Ok(Some(req)) => handle_request(&env5, req, act, &o5, &keep5).await,
                            other => {
                                o5.lock().unwrap().listener_log.push(format!("inspect:{:?}", other.map(|o| o.is_some())));
                                break;
                            }
                        },
                    }
                }
                lb
            });
            // Requests arriving over the base port are handled with the same script, in order.
            let port_listener = base_b.map(|(btx_b, mut brx_b)| {
                let (o7, env7, keep7, ls) = (o2.clone(), env.clone(), keep_b.clone(), lscript.clone());
                env.spawn("port-listener", 2, async move {
                    let mut acts = ls.into_iter().cycle();
                    while let Ok(Some(r)) = brx_b.recv_any().await {
                        if let Received::Requests(reqs) = r {
                            for req in reqs {
                                let act = match acts.next().unwrap() {
                                    LAct::Accept | LAct::CancelAccept(_) => LAct::InspectAccept,
                                    a => a,
                                };
                                handle_request(&env7, req, act, &o7, &keep7).await;
                            }
                        }
                    }
                    (btx_b, brx_b)
                })
            });
            env.quiesce().await;
            {
                let mut o = o2.lock().unwrap();
                o.resolved_before_teardown = o.results.len();
            }
            // Teardown: the listener goes away (remaining requests are refused), then all ports are
            // released so that waiting requests can proceed and be refused.
            listener.abort();
            let _ = listener.await;
            env.quiesce().await;
            keep_b.lock().unwrap().clear();
            keep_a.lock().unwrap().clear();
            env.quiesce().await;
            keep_a.lock().unwrap().clear();
            // The port-level listener may legitimately wait for a free port: stop it first.
            if let Some(pl) = &port_listener {
                pl.abort();
            }
            env.quiesce().await;
            for t in req_tasks {
                // the base port is released at once: a request waiting for a local port may need it
                if let Ok((kept, base)) = t.await {
                    drop(kept);
                    drop(base);
                }
            }
            keep_a.lock().unwrap().clear();
            if let Some(pl) = port_listener {
                let _ = pl.await;
            }
            env.explore(false);
            drop((ca, la, cb));
            env.quiesce().await;
        };
        let judge: Judge = Box::new(move |out: &Outcome| {
            let o = obs.lock().unwrap();
            let mut v = Verdict::default();
            v.findings.extend(panic_findings(out, "C10"));
            let (l, lf) = ledger_findings(out, 0, max_ports, [false, false]);
            v.findings.extend(lf);
            if let Some(e) = &o.err {
                v.fail("C10", "setup-failed", e.clone());
            }
            if out.ending != Ending::Completed {
                let pending: Vec<usize> = (0..o.total).filter(|i| !o.results.contains_key(i)).collect();
                v.fail(
                    "C10",
                    "request-never-resolves",
                    format!("ending {:?}: requests {:?} of kinds {:?} never resolved although the listener and all ports were dropped; results {:?}; listener {:?}", out.ending, pending, kinds, o.results, o.listener_log),
                );
            } else {
                for i in 0..o.total {
                    let Some(res) = o.results.get(&i) else {
                        v.fail("C10", "request-without-result", format!("request {i}"));
                        continue;
                    };
                    let id = id_of(i);
                    let truth = o.truth.get(&id);
                    let plain = matches!(kinds[i], CKind::Plain | CKind::CancelWait(_));
                    let any_cancel = o.cancelled_accepts > 0 || o.truth.values().any(|t| *t == Truth::AcceptCancelled);
                    if res == "Ok" && plain && any_cancel {
                        // id of a plain connect is its port number: cannot be matched to the cancelled accept
                    } else if res == "Ok" && (matches!(truth, Some(Truth::AcceptCancelled)) || (truth.is_none() && o.cancelled_accepts > 0)) {
                        // accepted by an accept future that was dropped afterwards: the port is dead, nothing to pair
                        if o.a_got.contains_key(&i) {
                            v.fail("C10", "wrong-pairing", format!("request {i}: accept was cancelled but the port delivered {:?}", o.a_got.get(&i)));
                        }
                    } else if res == "Ok" {
                        // pairing
                        match o.a_got.get(&i) {
                            Some(l) if *l == format!("id{id}") || plain => {}
                            other => v.fail("C10", "wrong-pairing", format!("request {i} (id {id}) received label {other:?} from its port")),
                        }
                        if !plain {
                            match o.b_got.get(&id) {
                                Some(l) if *l == format!("req{i}") => {}
                                other => v.fail("C10", "wrong-pairing", format!("listener-side port for id {id} received {other:?}")),
                            }
                            if !matches!(truth, Some(Truth::Accepted)) {
                                v.fail("C10", "accepted-without-accept", format!("request {i} reported Ok but the listener did {truth:?}"));
                            }
                        }
                    } else if !plain {
                        let expect: Vec<&str> = match truth {
                            Some(Truth::Accepted) => vec![],
                            Some(Truth::Rejected(true)) => vec!["Err(RemotePortsExhausted)"],
                            Some(Truth::Rejected(false)) | Some(Truth::Dropped) => vec!["Err(Rejected)"],
                            Some(Truth::Auto) => vec!["Err(RemotePortsExhausted)", "Err(Rejected)"],
                            Some(Truth::AcceptCancelled) => vec!["Err(Rejected)"],
                            // never seen by the listener: refused because the listener went away, or locally
                            None => vec!["Err(Rejected)", "Err(LocalPortsExhausted)", "Err(TooManyPendingConnectionRequests)", "Err(cancelled)"],
                        };
                        let cancelled_ok = (res == "Err(cancelled)" && matches!(kinds[i], CKind::CancelWait(_)))
                            // Listener::accept() refuses a no-wait request by itself when it has no free port
                            || (res == "Err(RemotePortsExhausted)" && truth.is_none() && matches!(kinds[i], CKind::NoWait | CKind::OverPort(false)));
                        if !expect.contains(&res.as_str()) && !cancelled_ok {
                            v.fail(
                                "C10",
                                format!("wrong-classification:{res}"),
                                format!("request {i} of kind {:?} resolved {res} but the listener did {truth:?} (expected one of {expect:?})", kinds[i]),
                            );
                        }
                        if matches!(truth, Some(Truth::Accepted)) && !cancelled_ok {
                            v.fail("C10", "accepted-but-refused", format!("request {i}: listener accepted but requester got {res}"));
                        }
                    }
                }
            }
            v.outcome = format!("{:?}|{:?}|{:?}|{}|{:?}", o.results, o.truth, o.listener_log, o.resolved_before_teardown, out.ending);
            v.nontrivial = o.results.values().any(|r| r == "Ok") && o.results.len() > 1 || l.max_outstanding[0] > 0;
            v
        });
        (Box::pin(root), judge)
    }
}

#[derive(Default)]
struct SentObs {
    ready: Option<bool>,
    err: Option<String>,
}

/// A request reported as sent is visible to the remote listener before data sent afterwards arrives.
pub struct SentOrderScenario {
    pub over_port: bool,
}

impl Scenario for SentOrderScenario {
    fn id(&self) -> String {
        format!("c10-sent/{}", self.over_port)
    }

    fn start(&self, env: Env) -> (BoxFuture<'static, ()>, Judge) {
        let obs = shared(SentObs::default());
        let o2 = obs.clone();
        let root = async move {
            env.explore(false);
            let link = LinkOpts { capacity: 1, deliver_cap: 1, eof_on_drop: false };
            let Ok(((ca, _la), (_cb, mut lb))) = env.pair(cfg(8, 16, 32, 1, 1), cfg(8, 16, 32, 1, 1), link, &[]).await else {
                o2.lock().unwrap().err = Some("pair".into());
                return;
            };
            let (c, a) = tokio::join!(ca.connect(), lb.accept());
            let (Ok((mut tx, _rx)), Ok(Some((_btx, mut brx)))) = (c, a) else {
                o2.lock().unwrap().err = Some("port".into());
                return;
            };
            env.explore(true);
            let o3 = o2.clone();
            let a = env.spawn("requester", 1, async move {
                let Ok(mut connect) = ca.connect_ext(None, true).await else {
                    o3.lock().unwrap().err = Some("connect_ext".into());
                    return None;
                };
                connect.sent().await;
                let _ = tx.send(Bytes::from_static(b"after")).await;
                Some((connect, tx, ca))
            });
            let o4 = o2.clone();
            let b = env.spawn("observer", 2, async move {
                if let Ok(Some(_)) = brx.recv().await {
                    // the data sent after `sent()` has arrived: the request must be available now
                    // (unconstrained: an exhausted cooperative budget must not masquerade as "not available")
                    let r = poll_once(tokio::task::coop::unconstrained(lb.inspect())).await;
                    o4.lock().unwrap().ready = Some(matches!(r, Some(Ok(Some(_)))));
                }
                (lb, brx)
            });
            let kept_a = a.await;
            let kept_b = b.await;
            env.explore(false);
            drop((kept_a, kept_b));
        };
        let judge: Judge = Box::new(move |out: &Outcome| {
            let o = obs.lock().unwrap();
            let mut v = Verdict::default();
            v.findings.extend(panic_findings(out, "C10"));
            if let Some(e) = &o.err {
                v.fail("C10", "setup-failed", e.clone());
            } else if out.ending != Ending::Completed {
                v.fail("C10", "sent-order-stuck", format!("{:?}", out.ending));
            } else if o.ready != Some(true) {
                v.fail("C10", "request-not-visible-after-sent", format!("data sent after Connect::sent() arrived but the request was not available to the listener: {:?}", o.ready));
            }
            v.outcome = format!("{:?}|{:?}", o.ready, out.ending);
            v.nontrivial = o.ready.is_some();
            v
        });
        (Box::pin(root), judge)
    }
}

fn mk(kinds: Vec<CKind>, lscript: Vec<LAct>, mp: [u32; 2], cq: u16) -> Arc<dyn Scenario> {
    Arc::new(ConnScenario { kinds, lscript, max_ports: mp, cq })
}

pub fn grid(tier: Tier) -> Vec<Arc<dyn Scenario>> {
    let mut out: Vec<Arc<dyn Scenario>> = Vec::new();
    let ckinds = [CKind::Wait, CKind::NoWait, CKind::Plain, CKind::OverPort(true), CKind::OverPort(false), CKind::CancelWait(1), CKind::CancelWait(3)];
    let lacts = [LAct::Accept, LAct::InspectAccept, LAct::InspectReject(false), LAct::InspectReject(true), LAct::InspectDrop, LAct::CancelAccept(1), LAct::CancelAccept(2), LAct::InspectCancelAccept(1)];
    let mps: &[[u32; 2]] = if tier == Tier::Quick { &[[2, 2], [4, 1]] } else { &[[1, 4], [2, 2], [4, 1], [3, 2], [8, 8]] };
    for mp in mps {
        for cq in [1u16, 2] {
            // pairs of requests x pairs of listener actions
            for (x, k1) in ckinds.iter().enumerate() {
                for k2 in ckinds.iter().skip(if tier == Tier::Quick { x } else { 0 }) {
                    for (y, a1) in lacts.iter().enumerate() {
                        for a2 in lacts.iter().skip(if tier == Tier::Quick { y } else { 0 }) {
                            out.push(mk(vec![*k1, *k2], vec![*a1, *a2], *mp, cq));
                        }
                    }
                }
            }
            // local exhaustion with waiting and cancelled requests
            for p in [1u32, 2] {
                out.push(mk(vec![CKind::Wait, CKind::Wait, CKind::CancelWait(p)], vec![LAct::Accept], [1, 4], cq));
                out.push(mk(vec![CKind::Wait, CKind::CancelWait(p), CKind::Wait], vec![LAct::Accept], [1, 4], cq));
                out.push(mk(vec![CKind::Plain, CKind::Plain, CKind::CancelWait(p), CKind::Plain], vec![LAct::Accept, LAct::Accept], [2, 4], cq));
            }
            // three requests, one action repeated
            for k in &ckinds {
                for a in &lacts {
                    out.push(mk(vec![*k, CKind::Wait, *k], vec![*a, *a, LAct::Accept], *mp, cq));
                }
            }
        }
    }
    out
}

pub fn core(tier: Tier) -> Vec<Arc<dyn Scenario>> {
    let mut out: Vec<Arc<dyn Scenario>> = vec![
        mk(vec![CKind::Wait, CKind::Wait], vec![LAct::Accept, LAct::Accept], [2, 2], 1),
        mk(vec![CKind::Wait, CKind::NoWait, CKind::Wait], vec![LAct::InspectAccept, LAct::InspectReject(false), LAct::Accept], [3, 2], 1),
        mk(vec![CKind::OverPort(true), CKind::OverPort(true), CKind::Wait], vec![LAct::InspectAccept, LAct::InspectDrop, LAct::Accept], [4, 3], 2),
        mk(vec![CKind::Wait, CKind::CancelWait(2)], vec![LAct::CancelAccept(1), LAct::Accept, LAct::Accept], [2, 2], 1),
        mk(vec![CKind::Wait, CKind::Wait], vec![LAct::InspectCancelAccept(1), LAct::Accept], [2, 1], 1),
        mk(vec![CKind::NoWait, CKind::NoWait, CKind::NoWait], vec![LAct::Accept, LAct::Accept], [2, 1], 1),
        mk(vec![CKind::Wait, CKind::Wait, CKind::CancelWait(1)], vec![LAct::Accept], [1, 4], 1),
        Arc::new(SentOrderScenario { over_port: false }),
    ];
    if tier == Tier::Thorough {
        out.push(mk(vec![CKind::Wait, CKind::Wait, CKind::Wait], vec![LAct::Accept, LAct::InspectReject(true), LAct::Accept], [2, 2], 2));
        out.push(mk(vec![CKind::Plain, CKind::OverPort(false)], vec![LAct::CancelAccept(2), LAct::InspectAccept, LAct::Accept], [3, 3], 1));
    }
    out
}

// ---- the configured default exhaustion policy (Cfg::ports_exhausted) ----

#[derive(Debug, Clone, Copy, PartialEq, Eq)]
pub enum Policy {
    Fail,
    WaitForever,
    /// wait with a time limit of 5 virtual seconds
    WaitLimited,
}

/// All local ports are in use when `Client::connect()` is called; the configured default policy decides
/// whether the request fails at once, waits, or waits for a limited time.
pub struct PolicyScenario {
    pub policy: Policy,
    /// the occupied port is released after that many virtual seconds (None = never before the judgement)
    pub release_after: Option<u64>,
}

#[derive(Default)]
struct PObs {
    err: Option<String>,
    /// (virtual ms at which connect() returned, result)
    result: Option<(u64, String)>,
    /// what was observed 60 virtual seconds after the request was made
    pending_at_60s: bool,
}

impl Scenario for PolicyScenario {
    fn id(&self) -> String {
        format!("c10-policy/{:?}/release{:?}", self.policy, self.release_after)
    }

    fn start(&self, env: Env) -> (BoxFuture<'static, ()>, Judge) {
        let obs = shared(PObs::default());
        let o2 = obs.clone();
        let (policy, release_after) = (self.policy, self.release_after);
        let root = async move {
            env.explore(false);
            let pe = match policy {
                Policy::Fail => chmux::PortsExhausted::Fail,
                Policy::WaitForever => chmux::PortsExhausted::Wait(None),
                Policy::WaitLimited => chmux::PortsExhausted::Wait(Some(Duration::from_secs(5))),
            };
            let cfg_a = Cfg { max_ports: 1, ports_exhausted: pe.clone(), ..cfg(8, 16, 32, 2, 2) };
            let cfg_b = Cfg { max_ports: 8, ports_exhausted: pe, ..cfg(8, 16, 32, 2, 2) };
            let link = LinkOpts { capacity: 2, deliver_cap: 2, eof_on_drop: false };
            let ((ca, la), (cb, mut lb)) = match env.pair(cfg_a, cfg_b, link, &[]).await {
                Ok(x) => x,
                Err(e) => {
                    o2.lock().unwrap().err = Some(e);
                    return;
                }
            };
            // occupy A's only port
            let (c, a) = tokio::join!(ca.connect(), lb.accept());
            let (first_a, first_b) = match (c, a) {
                (Ok(pa), Ok(Some(pb))) => (pa, pb),
                _ => {
                    o2.lock().unwrap().err = Some("first port".into());
                    return;
                }
            };
            env.quiesce().await;
            let t0 = env.now_ms();
            let (o3, env3, ca2) = (o2.clone(), env.clone(), ca.clone());
            let req = env.spawn("req", 1, async move {
                let r = ca2.connect().await;
                let t = env3.now_ms() - t0;
                o3.lock().unwrap().result = Some((t, match &r {
                    Ok(_) => "Ok".to_string(),
                    Err(e) => format!("Err({e:?})"),
                }));
                r.ok()
            });
            let acceptor = env.spawn("acceptor", 2, async move {
                let r = lb.accept().await;
                (r.ok().flatten(), lb)
            });
            let mut first = Some((first_a, first_b));
            if let Some(s) = release_after {
                tokio::time::sleep(Duration::from_secs(s)).await;
                drop(first.take());
            }
            tokio::time::sleep(Duration::from_secs(60u64.saturating_sub(release_after.unwrap_or(0)))).await;
            let pending = o2.lock().unwrap().result.is_none();
            o2.lock().unwrap().pending_at_60s = pending;
            // teardown: free the port, stop the acceptor
            drop(first);
            env.quiesce().await;
            let _ = tokio::time::timeout(Duration::from_secs(30), req).await;
            acceptor.abort();
            let _ = acceptor.await;
            drop((ca, la, cb));
            env.quiesce().await;
        };
        let judge: Judge = Box::new(move |out: &Outcome| {
            let o = obs.lock().unwrap();
            let mut v = Verdict::default();
            v.findings.extend(panic_findings(out, "C10"));
            if let Some(e) = &o.err {
                v.fail("C10", "policy-setup-failed", e.clone());
            } else if out.ending != Ending::Completed {
                v.fail("C10", "policy-scenario-stuck", format!("{:?}", out.ending));
            } else {
                let got = o.result.clone();
                let what = format!("policy {policy:?}, occupied port released after {release_after:?} s: connect() returned {got:?}, still pending after 60 s: {}", o.pending_at_60s);
                match (policy, release_after) {
                    // refused at once with the true reason
                    (Policy::Fail, _) => match &got {
                        Some((t, r)) if r == "Err(LocalPortsExhausted)" && *t < 1000 => {}
                        _ => v.fail("C10", "configured-exhaustion-policy-ignored:Fail", what),
                    },
                    // refused when the time limit expires, unless a port became free before
                    (Policy::WaitLimited, None) | (Policy::WaitLimited, Some(10..)) => match &got {
                        Some((t, r)) if r == "Err(LocalPortsExhausted)" && *t >= 5000 && *t < 7000 => {}
                        _ => v.fail("C10", "configured-exhaustion-policy-ignored:WaitLimited", what),
                    },
                    (Policy::WaitLimited, Some(_)) | (Policy::WaitForever, Some(_)) => match &got {
                        Some((_, r)) if r == "Ok" && !o.pending_at_60s => {}
                        _ => v.fail("C10", format!("waiting-request-not-served:{policy:?}"), what),
                    },
                    // waits as long as it takes
                    (Policy::WaitForever, None) => {
                        if !o.pending_at_60s {
                            v.fail("C10", "waiting-request-gave-up", what);
                        }
                    }
                }
            }
            v.outcome = format!("{:?}|{}", o.result, o.pending_at_60s);
            v.nontrivial = true;
            v
        });
        (Box::pin(root), judge)
    }
}

// ---- port requests over a port while the remote endpoint has no free port: the per-request wait flag ----

/// A asks for `n_ports` ports over an existing port with `wait`; B (which accepts every request) has
/// `free` free ports at that moment. One occupied port of B is released later.
pub struct OverPortWaitScenario {
    pub wait: bool,
    pub n_ports: usize,
    /// B's chunk size: 4 = one port per PortData frame (the list is split), 8 = two per frame
    pub chunk_b: u32,
}

#[derive(Default)]
struct WObs {
    err: Option<String>,
    /// request index -> (result, virtual ms at which it resolved)
    results: BTreeMap<usize, (String, u64)>,
    /// virtual ms at which the occupied port of B was released
    released_at: u64,
    is_wait_seen: Vec<bool>,
}

impl Scenario for OverPortWaitScenario {
    fn id(&self) -> String {
        format!("c10-overport/wait{}/n{}/chunk{}", self.wait as u8, self.n_ports, self.chunk_b)
    }

    fn start(&self, env: Env) -> (BoxFuture<'static, ()>, Judge) {
        let obs = shared(WObs::default());
        let o2 = obs.clone();
        let (wait, n_ports, chunk_b) = (self.wait, self.n_ports, self.chunk_b);
        let root = async move {
            env.explore(false);
            // B: base port + one occupied port + (n_ports - 1) free ports: exactly one request too many
            let cfg_a = Cfg { max_ports: 16, ..cfg(8, 32, 32, 2, 2) };
            let cfg_b = Cfg { max_ports: 2 + (n_ports as u32 - 1), ..cfg(chunk_b, 32, 32, 2, 2) };
            let link = LinkOpts { capacity: 2, deliver_cap: 2, eof_on_drop: false };
            let ((ca, la), (cb, mut lb)) = match env.pair(cfg_a, cfg_b, link, &[]).await {
                Ok(x) => x,
                Err(e) => {
                    o2.lock().unwrap().err = Some(e);
                    return;
                }
            };
            let (c, a) = tokio::join!(ca.connect(), lb.accept());
            let ((mut base_tx, base_rx_a), (base_tx_b, mut base_rx_b)) = match (c, a) {
                (Ok(pa), Ok(Some(pb))) => (pa, pb),
                _ => {
                    o2.lock().unwrap().err = Some("base port".into());
                    return;
                }
            };
            let (c, a) = tokio::join!(ca.connect(), lb.accept());
            let occupied = match (c, a) {
                (Ok(pa), Ok(Some(pb))) => (pa, pb),
                _ => {
                    o2.lock().unwrap().err = Some("occupied port".into());
                    return;
                }
            };
            env.quiesce().await;
            let t0 = env.now_ms();
            // B accepts every request that arrives over the base port
            let (o3, env3) = (o2.clone(), env.clone());
            let port_listener = env.spawn("port-listener", 2, async move {
                let mut kept = Vec::new();
                while let Ok(Some(r)) = base_rx_b.recv_any().await {
                    if let Received::Requests(reqs) = r {
                        for req in reqs {
                            o3.lock().unwrap().is_wait_seen.push(req.is_wait());
                            let o4 = o3.clone();
                            kept.push(env3.spawn("b-accept", 2, async move {
                                let r = req.accept().await;
                                if let Err(e) = &r {
                                    let _ = (e, &o4);
                                }
                                r.ok()
                            }));
                        }
                    }
                }
                (kept, base_rx_b)
            });
            let mut ports = Vec::new();
            for i in 0..n_ports {
                ports.push(PortReq::new(base_tx.port_allocator().allocate().await).with_id(id_of(i)));
            }
            let connects = match base_tx.connect(ports, wait).await {
                Ok(c) => c,
                Err(e) => {
                    o2.lock().unwrap().err = Some(format!("connect over port: {e:?}"));
                    return;
                }
            };
            let mut hs = Vec::new();
            for (i, c) in connects.into_iter().enumerate() {
                let (o4, env4) = (o2.clone(), env.clone());
                hs.push(env.spawn(&format!("req{i}"), 1, async move {
                    let r = c.await;
                    o4.lock().unwrap().results.insert(i, (match &r {
                        Ok(_) => "Ok".to_string(),
                        Err(e) => format!("Err({e:?})"),
                    }, env4.now_ms() - t0));
                    r.ok()
                }));
            }
            // nothing is released for 10 virtual seconds, then B's occupied port goes away
            tokio::time::sleep(Duration::from_secs(10)).await;
            o2.lock().unwrap().released_at = env.now_ms() - t0;
            drop(occupied);
            tokio::time::sleep(Duration::from_secs(10)).await;
            let mut kept = Vec::new();
            for h in hs {
                if let Ok(Ok(p)) = tokio::time::timeout(Duration::from_secs(30), h).await {
                    kept.push(p);
                }
            }
            drop(kept);
            port_listener.abort();
            let _ = port_listener.await;
            drop((base_tx, base_rx_a, base_tx_b));
            drop((ca, la, cb, lb));
            env.quiesce().await;
        };
        let judge: Judge = Box::new(move |out: &Outcome| {
            let o = obs.lock().unwrap();
            let mut v = Verdict::default();
            v.findings.extend(panic_findings(out, "C10"));
            if let Some(e) = &o.err {
                v.fail("C10", "overport-setup-failed", e.clone());
            } else if out.ending != Ending::Completed {
                v.fail("C10", "overport-scenario-stuck", format!("{:?}: {:?}", out.ending, o.results));
            } else {
                let ctx = format!("{n_ports} requests over a port with wait={wait}, B's chunk size {chunk_b}, B had {} free ports and released one more after {} ms; results {:?}; wait flags seen by B {:?}", n_ports - 1, o.released_at, o.results, o.is_wait_seen);
                if o.is_wait_seen.len() == n_ports && o.is_wait_seen.iter().any(|w| *w != wait) {
                    v.fail("C10", "wait-flag-of-port-request-changed", ctx.clone());
                }
                let ok = o.results.values().filter(|(r, _)| r == "Ok").count();
                let refused_early = o.results.values().filter(|(r, t)| r == "Err(RemotePortsExhausted)" && *t < o.released_at).count();
                let resolved_early = o.results.values().filter(|(_, t)| *t < o.released_at).count();
                if o.results.len() != n_ports {
                    v.fail("C10", "request-never-resolves", ctx.clone());
                } else if wait {
                    // all requests are served: n-1 at once, the last one when the port is released
                    if ok != n_ports || resolved_early != n_ports - 1 {
                        v.fail("C10", "waiting-port-request-not-served", ctx.clone());
                    }
                } else {
                    // n-1 accepted at once, one refused at once with the true reason
                    if ok != n_ports - 1 || refused_early != 1 || resolved_early != n_ports {
                        v.fail("C10", "no-wait-port-request-not-refused-at-once", ctx.clone());
                    }
                }
            }
            v.outcome = format!("{:?}|{:?}", o.results, o.is_wait_seen);
            v.nontrivial = true;
            v
        });
        (Box::pin(root), judge)
    }
}

pub fn overport_scenarios() -> Vec<Arc<dyn Scenario>> {
    let mut out: Vec<Arc<dyn Scenario>> = Vec::new();
    for wait in [false, true] {
        for n_ports in [1usize, 2, 3] {
            for chunk_b in [4u32, 8] {
                out.push(Arc::new(OverPortWaitScenario { wait, n_ports, chunk_b }));
            }
        }
    }
    out
}

pub fn policy_scenarios() -> Vec<Arc<dyn Scenario>> {
    let mut out: Vec<Arc<dyn Scenario>> = Vec::new();
    for policy in [Policy::Fail, Policy::WaitForever, Policy::WaitLimited] {
        for release_after in [None, Some(2), Some(20)] {
            out.push(Arc::new(PolicyScenario { policy, release_after }));
        }
    }
    out
}

pub fn all_scenarios(tier: Tier) -> Vec<Arc<dyn Scenario>> {
    let mut v = grid(tier);
    v.extend(core(tier));
    v.extend(policy_scenarios());
    v.extend(overport_scenarios());
    v
}

pub fn run(tier: Tier, seed: u64) -> i32 {
    let mut rep = Report::new("C10", tier, seed);
    let known = known_sigs("C10");
    let q = tier == Tier::Quick;
    let p0 = Params { max_dev: 0, seeds: vec![seed, seed + 1], time_limit: Duration::from_secs(if q { 25 } else { 600 }), ..Default::default() };
    rep.add("request kinds x listener actions x max_ports x connect_queue at d=0", explore("C10", grid(tier), p0, &known));
    let pp = Params { max_dev: 0, seeds: vec![seed], time_limit: Duration::from_secs(20), ..Default::default() };
    rep.add("configured default exhaustion policy (fail / wait / wait with time limit) x moment at which a port becomes free", explore("C10", policy_scenarios(), pp.clone(), &known));
    rep.add("port requests over a port with and without the wait flag while the remote endpoint has one free port too few, port list split or not", explore("C10", overport_scenarios(), pp, &known));
    let p = Params { max_dev: if q { 2 } else { 3 }, seeds: vec![seed, seed + 1], time_limit: Duration::from_secs(if q { 25 } else { 900 }), ..Default::default() };
    rep.add("concurrent connects/accepts/rejects/cancels under schedule exploration; sent-ordering", explore("C10", core(tier), p, &known));
    rep.rule = "a case = (request kinds incl. wait/no-wait/over-port/cancelled, listener action script incl. accept/inspect-accept/reject/drop/cancelled accept, max_ports pair, connect_queue, schedule deviations); distinct = distinct (results, listener ground truth, ending); non-trivial = at least one request was accepted among several, or requests were outstanding on the wire".into();
    rep.assumptions = vec![
        "ground truth = what the listener actor did with the request carrying that id; ids travel in the protocol".into(),
        "the configured default exhaustion policy is judged in virtual time: fail = refused within 1 s, wait with a 5 s limit = refused between 5 and 7 s unless a port was freed before".into(),
        "un-biased select! in Listener::accept/inspect fixed per seed".into(),
    ];
    rep.finish()
}
