//! C06 for the typed layers: once the connection has failed (cut, or silent stall past the timeout),
//! every pending and every later operation on channels, remote calls and remote functions of both
//! endpoints completes with an error in bounded time.

use futures::future::BoxFuture;
use remoc::{
    chmux::Cfg,
    codec,
    rch::{broadcast, mpsc, oneshot, watch},
    rfn::{CallError as FnCallError, RFn},
    rtc::ServerSharedMut as _,
};
use serde::{Deserialize, Serialize};
use std::{sync::Arc, time::Duration};

use super::{
    c04::{base_pair, carrier_cfg},
    c12::{AcctM, AcctMClient, AcctMServerSharedMut, Obj},
};
use crate::{
    net::LinkOpts,
    report::Tier,
    util::{panic_findings, shared},
    world::{Ending, Env, Judge, Outcome, Scenario, Verdict},
};

type C = codec::Default;

#[derive(Debug, Clone, Copy, PartialEq, Eq, Hash)]
pub enum TFault {
    /// both directions report errors
    Cut,
    /// both directions silently stop; both endpoints have a 2 s connection timeout
    Stall,
    /// only the direction towards the endpoint that holds the travelled halves stops
    StallOneWay,
}

#[derive(Serialize, Deserialize)]
pub enum Ship {
    MpscTx(mpsc::Sender<u32>),
    MpscRx(mpsc::Receiver<u32>),
    Bcast(broadcast::Receiver<u32, C, 2>),
    WatchRx(watch::Receiver<u32>),
    OneTx(oneshot::Sender<u32>),
    Client(AcctMClient),
    Fun(RFn<(u32,), Result<u32, FnCallError>>),
}

pub struct TypedFaultScenario {
    pub fault: TFault,
    /// the remote broadcast subscriber does not consume, so it is lagging when the connection fails
    pub lagging_subscriber: bool,
    /// a remote call is suspended in the callee when the connection fails
    pub call_in_flight: bool,
}

#[derive(Default)]
struct TObs {
    err: Option<String>,
    /// operation name -> "err" / "ok" / "hang" / "end"
    results: Vec<(String, String)>,
    bcast_sends_after: Vec<String>,
}

fn note(obs: &crate::util::Shared<TObs>, name: &str, r: &str) {
    obs.lock().unwrap().results.push((name.to_string(), r.to_string()));
}

const OP_LIMIT: Duration = Duration::from_secs(30);

impl Scenario for TypedFaultScenario {
    fn id(&self) -> String {
        format!("c06t/{:?}/lag{}/call{}", self.fault, self.lagging_subscriber as u8, self.call_in_flight as u8)
    }

    fn watchdog_secs(&self) -> u64 {
        100_000
    }

    fn start(&self, env: Env) -> (BoxFuture<'static, ()>, Judge) {
        let obs = shared(TObs::default());
        let o2 = obs.clone();
        let (fault, lagging, call_in_flight) = (self.fault, self.lagging_subscriber, self.call_in_flight);
        let root = async move {
            env.explore(false);
            let timeout = if fault == TFault::Cut { None } else { Some(Duration::from_secs(2)) };
            let mk = || Cfg { connection_timeout: timeout, ..carrier_cfg() };
            let link = LinkOpts { capacity: 4, deliver_cap: 4, eof_on_drop: true };
            let ab = base_pair::<Ship, Ship, (), ()>(&env, mk(), mk(), link).await;
            let ((mut a_tx, _a_rx, k1, k2), (_b_tx, mut b_rx, k3, k4)) = match ab {
                Ok(x) => x,
                Err(e) => {
                    o2.lock().unwrap().err = Some(e);
                    return;
                }
            };
            macro_rules! ship {
                ($c:expr) => {{
                    let (s, r) = tokio::join!(a_tx.send($c), b_rx.recv());
                    match (s, r) {
                        (Ok(()), Ok(Some(c))) => c,
                        _ => {
                            o2.lock().unwrap().err = Some("ship".into());
                            return;
                        }
                    }
                }};
            }
            // objects on A with their counterparts travelling to B
            let (m1_tx, mut m1_rx) = mpsc::channel::<u32, C>(2); // B sends to A
            let (m2_tx, m2_rx) = mpsc::channel::<u32, C>(2); // A sends to B
            let btx = broadcast::Sender::<u32, C>::new();
            let (wtx, wrx) = watch::channel::<u32, C>(0);
            let (otx, orx) = oneshot::channel::<u32, C>();
            let (obj, _log, gate) = Obj::new();
            let (server, client) = AcctMServerSharedMut::<_, C>::new(Arc::new(tokio::sync::RwLock::new(obj)), 2);
            let server_task = env.spawn("server", 1, async move { format!("{:?}", server.serve(true).await) });
            let fun = RFn::new_1(|x: u32| async move { Ok::<u32, FnCallError>(x + 1) });
            let Ship::MpscTx(b_m1_tx) = ship!(Ship::MpscTx(m1_tx)) else { return };
            let Ship::MpscRx(mut b_m2_rx) = ship!(Ship::MpscRx(m2_rx)) else { return };
            let Ship::Bcast(mut b_sub) = ship!(Ship::Bcast(btx.subscribe::<2>(1))) else { return };
            let Ship::WatchRx(mut b_wrx) = ship!(Ship::WatchRx(wrx)) else { return };
            let Ship::OneTx(b_otx) = ship!(Ship::OneTx(otx)) else { return };
            let Ship::Client(mut b_client) = ship!(Ship::Client(client)) else { return };
            let Ship::Fun(b_fun) = ship!(Ship::Fun(fun)) else { return };
            env.quiesce().await;
            // healthy traffic first
            let _ = b_m1_tx.send(1).await;
            let _ = m2_tx.send(2).await;
            let _ = btx.send(3);
            let _ = wtx.send(4);
            env.quiesce().await;
            let _ = m1_rx.recv().await;
            let _ = b_m2_rx.recv().await;
            if !lagging {
                let _ = b_sub.recv().await;
            }
            if lagging {
                // fill the whole pipeline to the subscriber (its remote buffer, the flow-control window, the local
                // queue) so that it is lagging, with its re-admission task parked, when the connection fails
                for v in 100..400u32 {
                    let _ = btx.send(v);
                    if v % 8 == 0 {
                        env.quiesce().await;
                    }
                }
            }
            // pending operations at the moment of the failure
            let (o3, env3) = (o2.clone(), env.clone());
            let pend_recv = env.spawn("pending-mpsc-recv", 1, async move {
                let r = tokio::time::timeout(OP_LIMIT, m1_rx.recv()).await;
                note(&o3, "pending a.mpsc.recv", match &r {
                    Err(_) => "hang",
                    Ok(Ok(Some(_))) => "ok",
                    Ok(Ok(None)) => "end",
                    Ok(Err(_)) => "err",
                });
                let _ = env3;
                m1_rx
            });
            let o3 = o2.clone();
            let pend_one = env.spawn("pending-oneshot", 1, async move {
                let r = tokio::time::timeout(OP_LIMIT, orx).await;
                note(&o3, "pending a.oneshot.recv", match &r {
                    Err(_) => "hang",
                    Ok(Ok(_)) => "ok",
                    Ok(Err(_)) => "err",
                });
            });
            let o3 = o2.clone();
            let pend_watch = env.spawn("pending-watch-changed", 2, async move {
                // value changes that were still on their way are consumed; afterwards only an error can follow
                let mut last = "ok";
                for _ in 0..6 {
                    let _ = b_wrx.borrow_and_update();
                    match tokio::time::timeout(OP_LIMIT, b_wrx.changed()).await {
                        Err(_) => {
                            last = "hang";
                            break;
                        }
                        Ok(Ok(())) => last = "ok",
                        Ok(Err(_)) => {
                            last = "err";
                            break;
                        }
                    }
                }
                note(&o3, "pending b.watch.changed", last);
                b_wrx
            });
            let mut pend_call = None;
            if call_in_flight {
                let o3 = o2.clone();
                let mut c2 = b_client.clone();
                pend_call = Some(env.spawn("pending-call", 2, async move {
                    let r = tokio::time::timeout(OP_LIMIT, c2.slow(1)).await;
                    note(&o3, "pending b.call", match &r {
                        Err(_) => "hang",
                        Ok(Ok(_)) => "ok",
                        Ok(Err(_)) => "err",
                    });
                }));
            }
            env.quiesce().await;
            // the failure
            match fault {
                TFault::Cut => {
                    env.dir(0, 0).cut();
                    env.dir(0, 1).cut();
                }
                TFault::Stall => {
                    env.dir(0, 0).stall();
                    env.dir(0, 1).stall();
                }
                TFault::StallOneWay => env.dir(0, 0).stall(),
            }
            if lagging {
                // the application keeps broadcasting while the transport is silent
                for v in 10..14 {
                    let _ = btx.send(v);
                    tokio::time::sleep(Duration::from_millis(300)).await;
                }
            }
            // well past every timeout
            tokio::time::sleep(Duration::from_secs(10)).await;
            env.quiesce().await;
            gate.open(100);
            // later operations on both endpoints
            macro_rules! later {
                ($name:expr, $fut:expr, $class:expr) => {{
                    let r = tokio::time::timeout(OP_LIMIT, $fut).await;
                    let s: &str = match &r {
                        Err(_) => "hang",
                        Ok(x) => $class(x),
                    };
                    note(&o2, $name, s);
                }};
            }
            later!("later b.mpsc.send", b_m1_tx.send(9), |x: &Result<_, _>| if x.is_err() { "err" } else { "ok" });
            later!("later b.mpsc.send again", b_m1_tx.send(9), |x: &Result<_, _>| if x.is_err() { "err" } else { "ok" });
            later!("later a.mpsc.send", m2_tx.send(9), |x: &Result<_, _>| if x.is_err() { "err" } else { "ok" });
            later!("later a.mpsc.send again", m2_tx.send(9), |x: &Result<_, _>| if x.is_err() { "err" } else { "ok" });
            later!("later b.mpsc.recv", b_m2_rx.recv(), |x: &Result<Option<u32>, _>| match x {
                Ok(Some(_)) => "ok",
                Ok(None) => "end",
                Err(_) => "err",
            });
            later!("later b.mpsc.recv again", b_m2_rx.recv(), |x: &Result<Option<u32>, _>| match x {
                Ok(Some(_)) => "ok",
                Ok(None) => "end",
                Err(_) => "err",
            });
            later!("later b.call", b_client.get(), |x: &Result<_, _>| if x.is_err() { "err" } else { "ok" });
            later!("later b.fn", b_fun.call(1), |x: &Result<_, _>| if x.is_err() { "err" } else { "ok" });
            let r = b_otx.send(5);
            note(&o2, "later b.oneshot.send", if r.is_err() { "err" } else { "accepted" });
            // the broadcast sender has lost its only subscriber: sends must start to fail
            for _ in 0..6 {
                let r = btx.send(99);
                o2.lock().unwrap().bcast_sends_after.push(if r.is_ok() { "ok".into() } else { "err".into() });
                env.quiesce().await;
            }
            // remote subscriber: drains what it has, then an error
            for i in 0..1000 {
                let r = tokio::time::timeout(OP_LIMIT, b_sub.recv()).await;
                match r {
                    Err(_) => {
                        note(&o2, "later b.broadcast.recv", "hang");
                        break;
                    }
                    Ok(Ok(_)) => {
                        if i == 999 {
                            note(&o2, "later b.broadcast.recv", "ok");
                        }
                    }
                    Ok(Err(broadcast::RecvError::Lagged)) => {}
                    Ok(Err(_)) => {
                        note(&o2, "later b.broadcast.recv", "err");
                        break;
                    }
                }
            }
            let _ = pend_recv.await;
            let _ = pend_one.await;
            let _ = pend_watch.await;
            if let Some(p) = pend_call {
                let _ = p.await;
            }
            drop((m2_tx, wtx, btx, b_client, b_fun));
            let _ = tokio::time::timeout(Duration::from_secs(30), server_task).await;
            drop((a_tx, b_rx, k1, k2, k3, k4));
            env.quiesce().await;
        };
        let judge: Judge = Box::new(move |out: &Outcome| {
            let o = obs.lock().unwrap();
            let mut v = Verdict::default();
            v.findings.extend(panic_findings(out, "C06"));
            if let Some(e) = &o.err {
                v.fail("C06", "typed-setup-failed", e.clone());
            } else if out.ending != Ending::Completed {
                v.fail("C06", "typed-scenario-stuck", format!("{:?}: {:?}", out.ending, o.results));
            } else {
                for (name, r) in &o.results {
                    // a sender may learn of the failure through the first refused operation: the repeated one decides
                    let first_try = (name.starts_with("later b.mpsc.send") || name.starts_with("later a.mpsc.send") || name.starts_with("later b.mpsc.recv")) && !name.ends_with("again");
                    // a receiver that has reported the failure once may report a plain end afterwards
                    let ok_allowed = first_try || name == "later b.oneshot.send" || (name == "later b.mpsc.recv again" && r == "end");
                    match r.as_str() {
                        "err" => {}
                        "hang" => v.fail("C06", format!("typed-operation-hangs-after-failure:{}", name.replace(' ', "-")), format!("fault {fault:?}: {:?}", o.results)),
                        "accepted" => {}
                        _ if ok_allowed => {}
                        other => v.fail("C06", format!("typed-operation-succeeds-after-failure:{}", name.replace(' ', "-")), format!("{name} -> {other}; fault {fault:?}: {:?}", o.results)),
                    }
                }
                if o.bcast_sends_after.last().map(|s| s.as_str()) != Some("err") {
                    v.fail("C06", "broadcast-send-keeps-succeeding-after-failure", format!("fault {fault:?}, lagging subscriber {lagging}: sends after the failure had settled: {:?}", o.bcast_sends_after));
                }
            }
            v.outcome = format!("{:?}|{:?}", o.results, o.bcast_sends_after);
            v.nontrivial = true;
            v
        });
        (Box::pin(root), judge)
    }
}

pub fn scenarios(_tier: Tier) -> Vec<Arc<dyn Scenario>> {
    let mut out: Vec<Arc<dyn Scenario>> = Vec::new();
    for fault in [TFault::Cut, TFault::Stall, TFault::StallOneWay] {
        for lagging in [false, true] {
            for call in [false, true] {
                out.push(Arc::new(TypedFaultScenario { fault, lagging_subscriber: lagging, call_in_flight: call }));
            }
        }
    }
    out
}
