pub mod c01;
