//! C18 I/O channels deliver exactly the written bytes; short streams are errors.

use futures::future::BoxFuture;
use remoc::{codec, rch::io as rio};
use serde::{Deserialize, Serialize};
use std::{sync::Arc, time::Duration};
use tokio::io::{AsyncReadExt, AsyncWriteExt};

use super::c04::base_pair;
use crate::{
    explore::{Params, explore},
    net::LinkOpts,
    report::{Report, Tier, known_sigs},
    util::{hex, panic_findings, payload, shared},
    world::{Ending, Env, Judge, Outcome, Scenario, Verdict, cfg},
};

type C = codec::Default;

#[derive(Serialize, Deserialize)]
enum Ship {
    Rx(rio::Receiver),
    Tx(rio::Sender),
}

#[derive(Debug, Clone, Copy, PartialEq, Eq)]
pub enum EndHow {
    Shutdown,
    /// flush, then drop without shutdown
    FlushDrop,
    /// drop right away (a write may still be pending)
    Drop,
}

#[derive(Debug, Clone, PartialEq, Eq)]
pub struct IoScenario {
    /// sizes of the individual write calls (0 = empty write), `None` entries are flushes
    pub writes: Vec<Option<usize>>,
    /// Some(declared) for a sized channel
    pub declared: Option<u64>,
    pub end: EndHow,
    /// read buffer size
    pub read_buf: usize,
    /// which half travels: true = the receiver is sent to the remote endpoint, false = the sender
    pub ship_receiver: bool,
    /// cut the connection after that many frames from the writer's endpoint (None = healthy)
    pub cut_after: Option<u32>,
    pub chunk: u32,
    pub rb: u32,
    /// the sender (already on the second endpoint) flushes and travels on to a third endpoint before the write entry
    /// with this index, and the stream is continued there
    pub move_before: Option<usize>,
}

#[derive(Default)]
struct Obs {
    /// bytes accepted by write (poll_write returned Ok(n))
    accepted: Vec<u8>,
    write_results: Vec<String>,
    end_result: Option<String>,
    read: Vec<u8>,
    read_end: Option<String>,
    err: Option<String>,
}

impl Scenario for IoScenario {
    fn id(&self) -> String {
        format!("c18/{self:?}")
    }

    fn start(&self, env: Env) -> (BoxFuture<'static, ()>, Judge) {
        let obs = shared(Obs::default());
        let p = self.clone();
        let o2 = obs.clone();
        let root = async move {
            env.explore(false);
            let link = LinkOpts { capacity: 2, deliver_cap: 2, eof_on_drop: true };
            let mk = || remoc::chmux::Cfg { max_ports: 16, ..cfg(p.chunk, p.rb, 4096, 2, 2) };
            let ab = base_pair::<Ship, Ship, (), ()>(&env, mk(), mk(), link).await;
            let ((mut a_tx, _a_rx, k1, k2), (_b_tx, mut b_rx, k3, k4)) = match ab {
                Ok(x) => x,
                Err(e) => {
                    o2.lock().unwrap().err = Some(e);
                    return;
                }
            };
            let mut second = None;
            if p.move_before.is_some() {
                match super::c04::base_pair_named::<Ship, Ship, (), ()>(&env, "B2", 3, "C", 4, mk(), mk(), link).await {
                    Ok(((t, r0, q1, q2), (t0, r, q3, q4))) => second = Some((t, r, (r0, t0, q1, q2, q3, q4))),
                    Err(e) => {
                        o2.lock().unwrap().err = Some(e);
                        return;
                    }
                }
            }
            let (tx, rx) = match p.declared {
                Some(n) => rio::sized::<C>(n),
                None => rio::channel::<C>(),
            };
            // ship one half to B
            let (mut wtx, mut rrx, writer_tag, reader_tag) = if p.ship_receiver {
                let (s, r) = tokio::join!(a_tx.send(Ship::Rx(rx)), b_rx.recv());
                match (s, r) {
                    (Ok(()), Ok(Some(Ship::Rx(r)))) => (tx, r, 1u8, 2u8),
                    _ => {
                        o2.lock().unwrap().err = Some("ship receiver".into());
                        return;
                    }
                }
            } else {
                let (s, r) = tokio::join!(a_tx.send(Ship::Tx(tx)), b_rx.recv());
                match (s, r) {
                    (Ok(()), Ok(Some(Ship::Tx(t)))) => (t, rx, 2u8, 1u8),
                    _ => {
                        o2.lock().unwrap().err = Some("ship sender".into());
                        return;
                    }
                }
            };
            env.quiesce().await;
            env.explore(true);
            if let Some(c) = p.cut_after {
                // cut = both directions stop and report end of stream after c more frames from the writer's endpoint
                let d = env.dir(0, if writer_tag == 1 { 0 } else { 1 });
                let (sent, _, _) = d.counts();
                let env2 = env.clone();
                let dirn = if writer_tag == 1 { 0 } else { 1 };
                env.spawn("cutter", 0, async move {
                    loop {
                        let (s, _, _) = env2.dir(0, dirn).counts();
                        if s >= sent + c {
                            env2.dir(0, 0).cut();
                            env2.dir(0, 1).cut();
                            return;
                        }
                        crate::util::yield_once().await;
                        if env2.step() > 15_000 {
                            return;
                        }
                    }
                });
            }
            let total: usize = p.writes.iter().flatten().sum();
            let data = payload(7, total);
            let o3 = o2.clone();
            let writes = p.writes.clone();
            let end = p.end;
            let move_before = p.move_before;
            let w = env.spawn("writer", writer_tag, async move {
                let mut off = 0;
                let mut second = second;
                for (wi, wr) in writes.into_iter().enumerate() {
                    if move_before == Some(wi) {
                        if let Some((t2, r2, _)) = second.as_mut() {
                            let r = wtx.flush().await;
                            o3.lock().unwrap().write_results.push(format!("flush-before-move:{}", r.as_ref().map(|_| "ok".to_string()).unwrap_or_else(|e| format!("{:?}", e.kind()))));
                            let (s, r) = tokio::join!(t2.send(Ship::Tx(wtx)), r2.recv());
                            match (s, r) {
                                (Ok(()), Ok(Some(Ship::Tx(t)))) => wtx = t,
                                (s, r) => {
                                    o3.lock().unwrap().write_results.push(format!("move-failed:{:?}/{:?}", s.err().map(|e| e.to_string()), r.map(|_| ()).map_err(|e| e.to_string())));
                                    o3.lock().unwrap().end_result = Some("move-failed".into());
                                    return;
                                }
                            }
                        }
                    }
                    match wr {
                        None => {
                            let r = wtx.flush().await;
                            o3.lock().unwrap().write_results.push(format!("flush:{}", r.as_ref().map(|_| "ok".to_string()).unwrap_or_else(|e| format!("{:?}", e.kind()))));
                            if r.is_err() {
                                break;
                            }
                        }
                        Some(n) => {
                            // a single write call (may accept fewer bytes); repeat until the slice is accepted
                            let mut slice = &data[off..off + n];
                            if slice.is_empty() {
                                let r = wtx.write(slice).await;
                                o3.lock().unwrap().write_results.push(format!("write0:{}", r.as_ref().map(|k| k.to_string()).unwrap_or_else(|e| format!("{:?}", e.kind()))));
                                if r.is_err() {
                                    break;
                                }
                                continue;
                            }
                            let mut failed = false;
                            while !slice.is_empty() {
                                match wtx.write(slice).await {
                                    Ok(0) => {
                                        o3.lock().unwrap().write_results.push("write:zero".into());
                                        failed = true;
                                        break;
                                    }
                                    Ok(k) => {
                                        o3.lock().unwrap().accepted.extend_from_slice(&slice[..k]);
                                        slice = &slice[k..];
                                    }
                                    Err(e) => {
                                        o3.lock().unwrap().write_results.push(format!("write:{:?}", e.kind()));
                                        failed = true;
                                        break;
                                    }
                                }
                            }
                            if failed {
                                break;
                            }
                            off += n;
                        }
                    }
                }
                let r = match end {
                    EndHow::Shutdown => wtx.shutdown().await.map(|_| "shutdown-ok".to_string()).unwrap_or_else(|e| format!("shutdown:{:?}", e.kind())),
                    EndHow::FlushDrop => {
                        let r = wtx.flush().await.map(|_| "flush-ok".to_string()).unwrap_or_else(|e| format!("flush:{:?}", e.kind()));
                        drop(wtx);
                        r
                    }
                    EndHow::Drop => {
                        drop(wtx);
                        "dropped".into()
                    }
                };
                o3.lock().unwrap().end_result = Some(r);
            });
            let o4 = o2.clone();
            let rb = p.read_buf;
            let r = env.spawn("reader", reader_tag, async move {
                let mut buf = vec![0u8; rb.max(1)];
                loop {
                    match tokio::time::timeout(Duration::from_secs(30), rrx.read(&mut buf)).await {
                        Ok(Ok(0)) => {
                            o4.lock().unwrap().read_end = Some("eof".into());
                            return;
                        }
                        Ok(Ok(n)) => o4.lock().unwrap().read.extend_from_slice(&buf[..n]),
                        Ok(Err(e)) => {
                            o4.lock().unwrap().read_end = Some(format!("err:{:?}", e.kind()));
                            return;
                        }
                        Err(_) => {
                            o4.lock().unwrap().read_end = Some("hang".into());
                            return;
                        }
                    }
                }
            });
            let _ = w.await;
            let _ = r.await;
            env.explore(false);
            drop((a_tx, b_rx, k1, k2, k3, k4));
        };
        let p = self.clone();
        let judge: Judge = Box::new(move |out: &Outcome| {
            let o = obs.lock().unwrap();
            let mut v = Verdict::default();
            v.findings.extend(panic_findings(out, "C18"));
            let total: usize = p.writes.iter().flatten().sum();
            if let Some(e) = &o.err {
                v.fail("C18", "setup-failed", e.clone());
            } else if out.ending != Ending::Completed {
                v.fail("C18", "io-scenario-stuck", format!("{:?}: writes {:?} end {:?} read {} bytes end {:?}", out.ending, o.write_results, o.end_result, o.read.len(), o.read_end));
            } else {
                let read_end = o.read_end.clone().unwrap_or_else(|| "none".into());
                if read_end == "hang" {
                    v.fail("C18", "reader-hangs", format!("read {} bytes then hung; writer: {:?} {:?}", o.read.len(), o.write_results, o.end_result));
                }
                // bytes read are a prefix of bytes accepted
                if !o.accepted.starts_with(&o.read) {
                    v.fail("C18", "bytes-corrupted-or-reordered", format!("accepted {} read {}", hex(&o.accepted), hex(&o.read)));
                }
                // over-long writes must be refused
                if let Some(d) = p.declared {
                    if o.accepted.len() as u64 > d {
                        v.fail("C18", "over-long-write-accepted", format!("declared {d}, accepted {}", o.accepted.len()));
                    }
                }
                // successful EOF only when the stream is complete
                if read_end == "eof" {
                    let complete = match p.declared {
                        Some(d) => o.read.len() as u64 == d,
                        None => o.end_result.as_deref() == Some("shutdown-ok") && o.read.len() == o.accepted.len(),
                    };
                    if !complete {
                        v.fail(
                            "C18",
                            format!("silent-truncation:{}", if p.declared.is_some() { "sized" } else { "unsized" }),
                            format!("reader got EOF after {} bytes; accepted {} of {total} written, declared {:?}, end {:?} ({:?}), cut {:?}", o.read.len(), o.accepted.len(), p.declared, p.end, o.end_result, p.cut_after),
                        );
                    }
                    if o.read != o.accepted[..o.read.len().min(o.accepted.len())] {
                        v.fail("C18", "bytes-corrupted-or-reordered", "eof with different content".to_string());
                    }
                }
                // a complete, healthy stream must be delivered entirely without error
                let healthy_complete = p.cut_after.is_none()
                    && match p.declared {
                        Some(d) => d as usize == total && p.end != EndHow::Drop,
                        None => p.end == EndHow::Shutdown,
                    };
                if healthy_complete && (read_end != "eof" || o.read.len() != total) {
                    v.fail("C18", "complete-stream-not-delivered", format!("wrote {total} bytes ({:?}, {:?}), reader got {} bytes then {read_end}; writer {:?} {:?}", p.writes, p.end, o.read.len(), o.write_results, o.end_result));
                }
            }
            v.outcome = format!("{}|{:?}|{:?}|{:?}|{:?}", o.read.len(), o.read_end, o.write_results, o.end_result, out.ending);
            v.nontrivial = o.read.len() > 0 || total == 0;
            v
        });
        (Box::pin(root), judge)
    }
}

fn partitions(total: usize, max_parts: usize) -> Vec<Vec<usize>> {
    // all compositions of `total` into <= max_parts parts, parts may be empty (0)
    let mut out = Vec::new();
    fn rec(left: usize, parts: usize, cur: &mut Vec<usize>, out: &mut Vec<Vec<usize>>) {
        if parts == 1 {
            cur.push(left);
            out.push(cur.clone());
            cur.pop();
            return;
        }
        let cands: Vec<usize> = {
            let mut c = vec![0, 1, left / 2, left.saturating_sub(1), left];
            c.sort_unstable();
            c.dedup();
            c.into_iter().filter(|x| *x <= left).collect()
        };
        for c in cands {
            cur.push(c);
            rec(left - c, parts - 1, cur, out);
            cur.pop();
        }
    }
    for k in 1..=max_parts {
        rec(total, k, &mut Vec::new(), &mut out);
    }
    out.sort();
    out.dedup();
    out
}

pub fn grid(tier: Tier) -> Vec<Arc<dyn Scenario>> {
    let mut out: Vec<Arc<dyn Scenario>> = Vec::new();
    let (cs, rb) = (8u32, 16u32);
    let lens: Vec<usize> = if tier == Tier::Quick { vec![0, 1, 8, 9, 17] } else { vec![0, 1, 7, 8, 9, 17, 25] };
    for &l in &lens {
        for parts in partitions(l, if tier == Tier::Quick { 3 } else { 4 }) {
            // writes with an optional flush in the middle
            let mut ws: Vec<Option<usize>> = parts.iter().map(|p| Some(*p)).collect();
            if ws.len() > 1 {
                ws.insert(1, None);
            }
            for declared in [None, Some(l as u64), Some(l as u64 + 1), if l > 0 { Some(l as u64 - 1) } else { None }] {
                if declared.is_none() && l > 0 && parts.len() > 2 && tier == Tier::Quick {
                    // keep the quick grid small: unsized only for <= 2 parts
                }
                for end in [EndHow::Shutdown, EndHow::FlushDrop, EndHow::Drop] {
                    for ship_receiver in [true, false] {
                        let read_buf = [1usize, cs as usize, l + 1][(l + parts.len()) % 3];
                        out.push(Arc::new(IoScenario { writes: ws.clone(), declared, end, read_buf, ship_receiver, cut_after: None, chunk: cs, rb, move_before: None }));
                    }
                }
            }
        }
    }
    // the sender moves on to a third endpoint in the middle of the stream
    for (writes, total) in [(vec![Some(5usize), Some(5)], 10u64), (vec![Some(9), None, Some(8), Some(1)], 18), (vec![Some(1), Some(16)], 17)] {
        for declared in [None, Some(total), Some(total - 1), Some(total + 1)] {
            for mv in 1..writes.len() {
                for end in [EndHow::Shutdown, EndHow::FlushDrop] {
                    out.push(Arc::new(IoScenario { writes: writes.clone(), declared, end, read_buf: 8, ship_receiver: false, cut_after: None, chunk: cs, rb, move_before: Some(mv) }));
                }
            }
        }
    }
    // connection cut at every frame of a transfer
    for declared in [None, Some(25u64)] {
        for ship_receiver in [true, false] {
            for cut in 0..(if tier == Tier::Quick { 14 } else { 24 }) {
                out.push(Arc::new(IoScenario { writes: vec![Some(9), None, Some(16)], declared, end: EndHow::Shutdown, read_buf: 8, ship_receiver, cut_after: Some(cut), chunk: cs, rb, move_before: None }));
            }
        }
    }
    out
}

pub fn core(_tier: Tier) -> Vec<Arc<dyn Scenario>> {
    let (cs, rb) = (8u32, 16u32);
    vec![
        Arc::new(IoScenario { writes: vec![Some(9), Some(0), Some(8)], declared: None, end: EndHow::Shutdown, read_buf: 8, ship_receiver: true, cut_after: None, chunk: cs, rb, move_before: None }),
        Arc::new(IoScenario { writes: vec![Some(17)], declared: Some(17), end: EndHow::FlushDrop, read_buf: 1, ship_receiver: false, cut_after: None, chunk: cs, rb, move_before: None }),
        Arc::new(IoScenario { writes: vec![Some(8), Some(9)], declared: None, end: EndHow::Drop, read_buf: 18, ship_receiver: true, cut_after: None, chunk: cs, rb, move_before: None }),
        Arc::new(IoScenario { writes: vec![Some(1), Some(16)], declared: Some(18), end: EndHow::Shutdown, read_buf: 8, ship_receiver: true, cut_after: None, chunk: cs, rb, move_before: None }),
    ]
}

pub fn all_scenarios(tier: Tier) -> Vec<Arc<dyn Scenario>> {
    let mut v = grid(tier);
    v.extend(core(tier));
    v
}

pub fn run(tier: Tier, seed: u64) -> i32 {
    let mut rep = Report::new("C18", tier, seed);
    let known = known_sigs("C18");
    let q = tier == Tier::Quick;
    let p0 = Params { max_dev: 0, seeds: vec![seed], time_limit: Duration::from_secs(if q { 25 } else { 600 }), ..Default::default() };
    rep.add("byte strings x write partitions (incl. empty writes, flushes) x sized/unsized/declared+-1 x ending x which half is remote; connection cut at every frame", explore("C18", grid(tier), p0, &known));
    let p = Params { max_dev: 2, seeds: vec![seed], time_limit: Duration::from_secs(if q { 20 } else { 600 }), ..Default::default() };
    rep.add("core transfers under schedule exploration", explore("C18", core(tier), p, &known));
    rep.rule = "a case = (total length around chunk_size / receive_buffer, composition into <= 3/4 writes incl. empty ones with a flush, sized with declared size L-1/L/L+1 or unsized, shutdown / flush+drop / drop, read buffer size, which half travels, cut after k frames, schedule deviations); distinct = distinct (bytes read, reader ending, writer results); non-trivial = bytes were read (or the stream is empty)".into();
    rep.assumptions = vec!["'accepted' bytes are those poll_write returned Ok(n) for; a cut makes both directions report end-of-stream".into()];
    rep.finish()
}
