//! C12 Remote calls run at most once, answer their own caller, mutate atomically.
//! (The traits and the target object are shared with C19.)

use futures::future::BoxFuture;
use remoc::{
    codec,
    rtc::{CallError, Client as _, Server as _, ServerRefMut as _, ServerShared as _, ServerSharedMut as _},
};
use serde::{Deserialize, Serialize};
use std::{
    sync::{
        Arc, Mutex,
        atomic::{AtomicI64, AtomicU32, Ordering},
    },
    time::Duration,
};

use super::c04::{base_pair, carrier_cfg as typed_cfg};
use crate::{
    explore::{Params, explore},
    net::LinkOpts,
    report::{Report, Tier, known_sigs},
    util::{Shared, panic_findings, shared, yield_once},
    world::{Ending, Env, Judge, Outcome, Scenario, Verdict},
};

type C = codec::Default;

/// Methods with all receiver kinds (only the by-value server exists for this trait).
#[remoc::rtc::remote]
pub trait AcctV {
    async fn get(&self) -> Result<i64, CallError>;
    async fn add(&mut self, n: i64) -> Result<i64, CallError>;
    async fn take(self) -> Result<i64, CallError>;
}

/// `&self` and `&mut self` methods: by-value, ref-mut and shared-mut servers.
#[remoc::rtc::remote(clone)]
pub trait AcctM {
    async fn get(&self) -> Result<i64, CallError>;
    async fn slow_get(&self) -> Result<i64, CallError>;
    async fn add(&mut self, n: i64) -> Result<i64, CallError>;
    #[no_cancel]
    async fn add_nc(&mut self, n: i64) -> Result<i64, CallError>;
    async fn slow(&mut self, tag: u32) -> Result<u32, CallError>;
    #[no_cancel]
    async fn slow_nc(&mut self, tag: u32) -> Result<u32, CallError>;
    async fn big(&self, n: u32) -> Result<Vec<u8>, CallError>;
    async fn eat(&self, data: Vec<u8>) -> Result<u32, CallError>;
}

/// Newer version of `AcctM` as a client might have it: one more method, one changed argument type.
#[remoc::rtc::remote(clone)]
pub trait AcctM2 {
    async fn get(&self) -> Result<i64, CallError>;
    async fn add(&mut self, n: String) -> Result<i64, CallError>;
    async fn brand_new(&self, x: u32) -> Result<u32, CallError>;
}

/// `&self` methods only: all server flavours incl. shared and ref.
#[remoc::rtc::remote(clone)]
pub trait AcctS {
    async fn bump(&self, n: i64) -> Result<i64, CallError>;
    async fn peek(&self) -> Result<i64, CallError>;
}

#[derive(Debug, Clone, PartialEq, Eq)]
pub enum Ev {
    Start { id: u32, method: &'static str, arg: i64 },
    Mid { id: u32 },
    Finish { id: u32, result: i64 },
}

/// Gate the harness opens to let `slow` methods proceed.
pub struct Gate(pub tokio::sync::Semaphore);

impl Gate {
    pub async fn pass(&self) {
        if let Ok(p) = self.0.acquire().await {
            p.forget();
        }
    }
    pub fn open(&self, n: usize) {
        self.0.add_permits(n);
    }
}

pub struct Obj {
    pub value: i64,
    pub shared_value: AtomicI64,
    pub log: Arc<Mutex<Vec<Ev>>>,
    pub next: Arc<AtomicU32>,
    pub gate: Arc<Gate>,
    /// gate inside `add_nc` between its two side effects (open by default)
    pub nc_gate: Arc<Gate>,
}

impl Obj {
    pub fn new() -> (Self, Arc<Mutex<Vec<Ev>>>, Arc<Gate>) {
        let log = Arc::new(Mutex::new(Vec::new()));
        let gate = Arc::new(Gate(tokio::sync::Semaphore::new(0)));
        (Self { value: 0, shared_value: AtomicI64::new(0), log: log.clone(), next: Arc::new(AtomicU32::new(0)), gate: gate.clone(), nc_gate: Arc::new(Gate(tokio::sync::Semaphore::new(100_000))) }, log, gate)
    }
    fn start(&self, method: &'static str, arg: i64) -> u32 {
        let id = self.next.fetch_add(1, Ordering::SeqCst);
        self.log.lock().unwrap().push(Ev::Start { id, method, arg });
        id
    }
    fn finish(&self, id: u32, result: i64) {
        self.log.lock().unwrap().push(Ev::Finish { id, result });
    }
}

impl AcctV for Obj {
    async fn get(&self) -> Result<i64, CallError> {
        let id = self.start("get", 0);
        let v = self.value;
        self.finish(id, v);
        Ok(v)
    }
    async fn add(&mut self, n: i64) -> Result<i64, CallError> {
        let id = self.start("add", n);
        let old = self.value;
        yield_once().await;
        self.value = old + n;
        self.finish(id, old);
        Ok(old)
    }
    async fn take(self) -> Result<i64, CallError> {
        let id = self.start("take", 0);
        let v = self.value;
        self.finish(id, v);
        Ok(v)
    }
}

impl AcctM for Obj {
    async fn get(&self) -> Result<i64, CallError> {
        let id = self.start("get", 0);
        let v = self.value;
        self.finish(id, v);
        Ok(v)
    }
    async fn slow_get(&self) -> Result<i64, CallError> {
        let id = self.start("slow_get", 0);
        let v = self.value;
        yield_once().await;
        // a writer running concurrently with this reader would be visible here
        let v2 = self.value;
        self.finish(id, if v == v2 { v } else { -999_999 });
        Ok(if v == v2 { v } else { -999_999 })
    }
    async fn add(&mut self, n: i64) -> Result<i64, CallError> {
        let id = self.start("add", n);
        let old = self.value;
        yield_once().await;
        self.value = old + n;
        self.finish(id, old);
        Ok(old)
    }
    async fn add_nc(&mut self, n: i64) -> Result<i64, CallError> {
        let id = self.start("add_nc", n);
        let old = self.value;
        self.value = old + n + 1_000_000;
        yield_once().await;
        self.nc_gate.pass().await;
        self.value -= 1_000_000;
        self.finish(id, old);
        Ok(old)
    }
    async fn slow(&mut self, tag: u32) -> Result<u32, CallError> {
        let id = self.start("slow", tag as i64);
        self.gate.pass().await;
        self.log.lock().unwrap().push(Ev::Mid { id });
        self.gate.pass().await;
        self.finish(id, tag as i64);
        Ok(tag)
    }
    async fn slow_nc(&mut self, tag: u32) -> Result<u32, CallError> {
        let id = self.start("slow_nc", tag as i64);
        self.gate.pass().await;
        self.log.lock().unwrap().push(Ev::Mid { id });
        self.gate.pass().await;
        self.finish(id, tag as i64);
        Ok(tag)
    }
    async fn big(&self, n: u32) -> Result<Vec<u8>, CallError> {
        let id = self.start("big", n as i64);
        self.finish(id, n as i64);
        Ok(vec![7; n as usize])
    }
    async fn eat(&self, data: Vec<u8>) -> Result<u32, CallError> {
        let id = self.start("eat", data.len() as i64);
        self.finish(id, data.len() as i64);
        Ok(data.len() as u32)
    }
}

impl AcctS for Obj {
    async fn bump(&self, n: i64) -> Result<i64, CallError> {
        let id = self.start("bump", n);
        let old = self.shared_value.fetch_add(n, Ordering::SeqCst);
        yield_once().await;
        self.finish(id, old);
        Ok(old)
    }
    async fn peek(&self) -> Result<i64, CallError> {
        let id = self.start("peek", 0);
        let v = self.shared_value.load(Ordering::SeqCst);
        self.finish(id, v);
        Ok(v)
    }
}

#[derive(Debug, Clone, Copy, PartialEq, Eq)]
pub enum Flavour {
    Value,
    MValue,
    RefMut,
    SharedMut(bool),
    Shared(bool),
}

#[derive(Debug, Clone, Copy, PartialEq, Eq)]
pub enum Call {
    Get,
    SlowGet,
    Add(i64),
    AddNc(i64),
    /// add_nc whose call future is dropped at its p-th poll
    CancelAddNc(i64, u32),
    /// wait for quiescence (lets an abandoned non-cancellable call finish)
    Settle,
    /// let `add_nc` executions waiting between their two side effects proceed
    OpenNcGate,
    Take,
}

#[derive(Serialize, Deserialize)]
pub enum AnyClient {
    V(AcctVClient),
    M(AcctMClient),
    S(AcctSClient),
}

impl AnyClient {
    /// Clients of traits with by-value methods cannot be cloned.
    pub fn dup(&self) -> Option<AnyClient> {
        match self {
            AnyClient::V(_) => None,
            AnyClient::M(c) => Some(AnyClient::M(c.clone())),
            AnyClient::S(c) => Some(AnyClient::S(c.clone())),
        }
    }
}

#[derive(Debug, Clone)]
pub struct Rec {
    pub client: u8,
    pub call: Call,
    pub invoked: u32,
    pub returned: u32,
    pub result: Result<i64, String>,
}

#[derive(Default)]
pub struct Obs {
    pub hist: Vec<Rec>,
    pub err: Option<String>,
    pub serve_result: Option<String>,
    pub nc_gate: Option<Arc<Gate>>,
}

pub struct CallScenario {
    pub flavour: Flavour,
    /// per client: calls; client 0 is local to the server's endpoint, the others are remote
    pub scripts: Vec<Vec<Call>>,
    /// cut the connection after that many frames from the remote endpoint (None = healthy)
    pub cut_after: Option<u32>,
}

async fn do_call(c: &mut AnyClient, call: Call) -> Result<i64, String> {
    let r = match (c, call) {
        (AnyClient::V(c), Call::Get) => c.get().await,
        (AnyClient::V(c), Call::Add(n)) => c.add(n).await,
        (AnyClient::M(c), Call::Get) => c.get().await,
        (AnyClient::M(c), Call::SlowGet) => c.slow_get().await,
        (AnyClient::M(c), Call::Add(n)) => c.add(n).await,
        (AnyClient::M(c), Call::AddNc(n)) => c.add_nc(n).await,
        (AnyClient::S(c), Call::Get) => c.peek().await,
        (AnyClient::S(c), Call::SlowGet) => c.peek().await,
        (AnyClient::S(c), Call::Add(n)) => c.bump(n).await,
        (AnyClient::S(c), Call::AddNc(n)) => c.bump(n).await,
        (AnyClient::S(c), Call::CancelAddNc(n, _)) => c.bump(n).await,
        _ => return Err("unsupported".into()),
    };
    r.map_err(|e| format!("{e:?}").chars().take(50).collect())
}

async fn run_client(env: Env, id: u8, c: AnyClient, script: Vec<Call>, obs: Shared<Obs>) {
    let mut c = Some(c);
    for call in script {
        let invoked = env.step();
        if call == Call::Settle {
            env.quiesce().await;
            continue;
        }
        if call == Call::OpenNcGate {
            if let Some(g) = obs.lock().unwrap().nc_gate.clone() {
                g.open(100_000);
            }
            continue;
        }
        let result = if let Call::CancelAddNc(n, p) = call {
            match c.as_mut() {
                Some(AnyClient::M(m)) => match crate::util::cancel_at(m.add_nc(n), p).await {
                    crate::util::Cancelled::Done(r) => r.map_err(|e| format!("{e:?}").chars().take(50).collect()),
                    crate::util::Cancelled::Cancelled(_) => Err("cancelled".into()),
                },
                _ => Err("unsupported".into()),
            }
        } else if call == Call::Take {
            match c.take() {
                Some(AnyClient::V(v)) => v.take().await.map_err(|e| format!("{e:?}").chars().take(50).collect()),
                other => {
                    c = other;
                    Err("unsupported".into())
                }
            }
        } else {
            match c.as_mut() {
                Some(c) => do_call(c, call).await,
                None => Err("client-consumed".into()),
            }
        };
        let returned = env.step();
        obs.lock().unwrap().hist.push(Rec { client: id, call, invoked, returned, result });
    }
}

impl Scenario for CallScenario {
    fn id(&self) -> String {
        format!("c12/{:?}/{:?}/cut{:?}", self.flavour, self.scripts, self.cut_after)
    }

    fn start(&self, env: Env) -> (BoxFuture<'static, ()>, Judge) {
        let obs = shared(Obs::default());
        let (flavour, scripts, cut_after) = (self.flavour, self.scripts.clone(), self.cut_after);
        let o2 = obs.clone();
        let log_slot: Shared<Option<Arc<Mutex<Vec<Ev>>>>> = shared(None);
        let ls2 = log_slot.clone();
        let root = async move {
            env.explore(false);
            let link = LinkOpts { capacity: 2, deliver_cap: 2, eof_on_drop: true };
            let ab = base_pair::<AnyClient, AnyClient, (), ()>(&env, typed_cfg(), typed_cfg(), link).await;
            let ((mut a_tx, _a_rx, k1, k2), (_b_tx, mut b_rx, k3, k4)) = match ab {
                Ok(x) => x,
                Err(e) => {
                    o2.lock().unwrap().err = Some(e);
                    return;
                }
            };
            let (mut obj, log, _gate) = Obj::new();
            if scripts.iter().flatten().any(|c| *c == Call::OpenNcGate) {
                obj.nc_gate = Arc::new(Gate(tokio::sync::Semaphore::new(0)));
            }
            o2.lock().unwrap().nc_gate = Some(obj.nc_gate.clone());
            *ls2.lock().unwrap() = Some(log);
            // server task on endpoint A
            let (client, server_task): (AnyClient, tokio::task::JoinHandle<String>) = match flavour {
                Flavour::Value => {
                    let (server, client) = AcctVServer::<_, C>::new(obj, 2);
                    (AnyClient::V(client), env.spawn("server", 1, async move { format!("{:?}", server.serve().await.1) }))
                }
                Flavour::MValue => {
                    let (server, client) = AcctMServer::<_, C>::new(obj, 2);
                    (AnyClient::M(client), env.spawn("server", 1, async move { format!("{:?}", server.serve().await.1) }))
                }
                Flavour::RefMut => {
                    let (tx, rx) = tokio::sync::oneshot::channel();
                    let h = env.spawn("server", 1, async move {
                        let mut obj = obj;
                        let (server, client) = AcctMServerRefMut::<_, C>::new(&mut obj, 2);
                        let _ = tx.send(client);
                        format!("{:?}", server.serve().await)
                    });
                    match rx.await {
                        Ok(c) => (AnyClient::M(c), h),
                        Err(_) => {
                            o2.lock().unwrap().err = Some("refmut".into());
                            return;
                        }
                    }
                }
                Flavour::SharedMut(spawn) => {
                    let (server, client) = AcctMServerSharedMut::<_, C>::new(Arc::new(tokio::sync::RwLock::new(obj)), 2);
                    (AnyClient::M(client), env.spawn("server", 1, async move { format!("{:?}", server.serve(spawn).await) }))
                }
                Flavour::Shared(spawn) => {
                    let (server, client) = AcctSServerShared::<_, C>::new(Arc::new(obj), 2);
                    (AnyClient::S(client), env.spawn("server", 1, async move { format!("{:?}", server.serve(spawn).await) }))
                }
            };
            // ship one client to B (clones are made there), keep one locally
            let local = client.dup();
            let (s, r) = tokio::join!(a_tx.send(client), b_rx.recv());
            let remote = match (s, r) {
                (Ok(()), Ok(Some(c))) => c,
                _ => {
                    o2.lock().unwrap().err = Some("ship client".into());
                    return;
                }
            };
            env.quiesce().await;
            env.explore(true);
            if let Some(c) = cut_after {
                let (sent, _, _) = env.dir(0, 1).counts();
                let env2 = env.clone();
                env.spawn("cutter", 0, async move {
                    loop {
                        let (s, _, _) = env2.dir(0, 1).counts();
                        if s >= sent + c {
                            env2.dir(0, 0).cut();
                            env2.dir(0, 1).cut();
                            return;
                        }
                        yield_once().await;
                        if env2.step() > 15_000 {
                            return;
                        }
                    }
                });
            }
            let mut tasks = Vec::new();
            let mut remote = Some(remote);
            for (i, script) in scripts.iter().enumerate() {
                let c = if i == 0 {
                    local.as_ref().and_then(|l| l.dup())
                } else {
                    match remote.as_ref().and_then(|r| r.dup()) {
                        Some(c) => Some(c),
                        // a client that cannot be cloned is used by the first remote script only
                        None => remote.take(),
                    }
                };
                let Some(c) = c else { continue };
                let tag = if i == 0 { 1 } else { 2 };
                tasks.push(env.spawn(&format!("client{i}"), tag, run_client(env.clone(), i as u8, c, script.clone(), o2.clone())));
            }
            drop(local);
            drop(remote);
            for t in tasks {
                let _ = t.await;
            }
            env.explore(false);
            let r = tokio::time::timeout(Duration::from_secs(10), server_task).await;
            o2.lock().unwrap().serve_result = Some(match r {
                Ok(Ok(s)) => s,
                Ok(Err(e)) => format!("join:{e}"),
                Err(_) => "still-serving".into(),
            });
            drop((a_tx, b_rx, k1, k2, k3, k4));
        };
        let judge: Judge = Box::new(move |out: &Outcome| {
            let o = obs.lock().unwrap();
            let log: Vec<Ev> = log_slot.lock().unwrap().as_ref().map(|l| l.lock().unwrap().clone()).unwrap_or_default();
            let mut v = Verdict::default();
            v.findings.extend(panic_findings(out, "C12"));
            if let Some(e) = &o.err {
                v.fail("C12", "setup-failed", e.clone());
            } else if out.ending != Ending::Completed {
                v.fail("C12", "call-never-completes", format!("{:?}: history {:?}", out.ending, o.hist));
            } else {
                judge_history(&mut v, &o.hist, &log, flavour, cut_after.is_some());
            }
            v.outcome = format!("{:?}|{:?}", o.hist.iter().map(|r| (r.client, r.call, r.result.clone())).collect::<Vec<_>>(), o.serve_result);
            v.nontrivial = o.hist.iter().filter(|r| r.result.is_ok()).count() >= 2;
            v
        });
        (Box::pin(root), judge)
    }
}

/// At-most-once, own-caller and linearizability checks.
pub fn judge_history(v: &mut Verdict, hist: &[Rec], log: &[Ev], flavour: Flavour, faulty: bool) {
    // executions: (id, method, arg, result if finished)
    let mut execs: Vec<(u32, &'static str, i64, Option<i64>)> = Vec::new();
    for e in log {
        match e {
            Ev::Start { id, method, arg } => execs.push((*id, method, *arg, None)),
            Ev::Finish { id, result } => {
                if let Some(x) = execs.iter_mut().find(|x| x.0 == *id) {
                    x.3 = Some(*result);
                }
            }
            Ev::Mid { .. } => {}
        }
    }
    let mname = |c: Call| match (c, flavour) {
        (Call::Get | Call::SlowGet, Flavour::Shared(_)) => "peek",
        (Call::Add(_) | Call::AddNc(_), Flavour::Shared(_)) => "bump",
        (Call::Get, _) => "get",
        (Call::SlowGet, _) => "slow_get",
        (Call::Add(_), _) => "add",
        (Call::AddNc(_) | Call::CancelAddNc(..), _) => "add_nc",
        (Call::Settle | Call::OpenNcGate, _) => "settle",
        (Call::Take, _) => "take",
    };
    let marg = |c: Call| match c {
        Call::Add(n) | Call::AddNc(n) | Call::CancelAddNc(n, _) => n,
        _ => 0,
    };
    // every Ok result is the result of exactly one execution with those arguments; no execution credited twice
    let mut used = vec![false; execs.len()];
    for r in hist {
        if let Ok(res) = &r.result {
            let m = mname(r.call);
            let found = execs.iter().enumerate().find(|(i, e)| !used[*i] && e.1 == m && e.2 == marg(r.call) && e.3 == Some(*res));
            match found {
                Some((i, _)) => used[i] = true,
                None => v.fail(
                    "C12",
                    "result-without-own-execution",
                    format!("client {} call {:?} returned {res} but no unused execution of {m}({}) produced that result; executions {:?}; history {:?}", r.client, r.call, marg(r.call), execs, hist),
                ),
            }
        }
    }
    let calls = hist.len();
    if execs.len() > calls {
        v.fail("C12", "executed-more-than-once", format!("{} executions for {calls} calls: {:?}", execs.len(), execs));
    }
    // per call kind: executions of (method,arg) <= calls of that kind
    for r in hist {
        let m = mname(r.call);
        let n_exec = execs.iter().filter(|e| e.1 == m && e.2 == marg(r.call)).count();
        let n_call = hist.iter().filter(|h| mname(h.call) == m && marg(h.call) == marg(r.call)).count();
        if n_exec > n_call {
            v.fail("C12", "executed-more-than-once", format!("{m}({}) executed {n_exec} times for {n_call} calls", marg(r.call)));
        }
    }
    if !faulty {
        for r in hist {
            if let Err(e) = &r.result {
                let legit_after_take = hist.iter().any(|h| h.call == Call::Take && h.result.is_ok());
                if !legit_after_take && e != "unsupported" && e != "cancelled" {
                    v.fail("C12", "call-failed-on-healthy-connection", format!("client {} {:?}: {e}", r.client, r.call));
                }
            }
        }
    }
    if execs.iter().any(|e| e.3 == Some(-999_999)) || hist.iter().any(|r| r.result == Ok(-999_999)) {
        v.fail("C12", "reader-overlapped-writer", format!("a &self method observed the value changing while it ran: {execs:?}"));
    }
    // linearizability over completed Ok calls (errors: the call may or may not have taken effect)
    let ok: Vec<&Rec> = hist.iter().filter(|r| r.result.is_ok()).collect();
    let maybe: Vec<&Rec> = hist.iter().filter(|r| r.result.is_err() && matches!(r.call, Call::Add(_) | Call::AddNc(_) | Call::CancelAddNc(..))).collect();
    if ok.len() <= 7 && !linearizable(&ok, &maybe) {
        v.fail("C12", format!("not-linearizable:{flavour:?}"), format!("no sequential order of the calls respects real-time order and reproduces the results: {hist:?}; executions {execs:?}"));
    }
}

fn linearizable(ok: &[&Rec], maybe: &[&Rec]) -> bool {
    // try every subset of failed mutating calls as "took effect", and every order
    let n_maybe = maybe.len().min(3);
    for mask in 0..(1u32 << n_maybe) {
        let mut calls: Vec<(&Rec, bool)> = ok.iter().map(|r| (*r, true)).collect();
        for (i, m) in maybe.iter().take(n_maybe).enumerate() {
            if mask & (1 << i) != 0 {
                calls.push((*m, false));
            }
        }
        let mut order: Vec<usize> = Vec::new();
        let mut used = vec![false; calls.len()];
        if search(&calls, &mut order, &mut used, 0, false) {
            return true;
        }
    }
    false
}

fn search(calls: &[(&Rec, bool)], order: &mut Vec<usize>, used: &mut Vec<bool>, value: i64, taken: bool) -> bool {
    if order.len() == calls.len() {
        return true;
    }
    for i in 0..calls.len() {
        if used[i] {
            continue;
        }
        // real-time order: a call that returned before another was invoked must come first
        if (0..calls.len()).any(|j| !used[j] && j != i && calls[j].0.returned < calls[i].0.invoked) {
            continue;
        }
        let (r, check) = calls[i];
        if taken {
            // after take() nothing can succeed
            if check {
                continue;
            }
        }
        let (res, nv, nt) = match r.call {
            Call::Get | Call::SlowGet => (value, value, taken),
            Call::Add(n) | Call::AddNc(n) | Call::CancelAddNc(n, _) => (value, value + n, taken),
            Call::Settle | Call::OpenNcGate => (value, value, taken),
            Call::Take => (value, value, true),
        };
        if check && r.result != Ok(res) {
            continue;
        }
        used[i] = true;
        order.push(i);
        if search(calls, order, used, nv, nt) {
            return true;
        }
        order.pop();
        used[i] = false;
    }
    false
}

fn mk(flavour: Flavour, scripts: Vec<Vec<Call>>, cut: Option<u32>) -> Arc<dyn Scenario> {
    Arc::new(CallScenario { flavour, scripts, cut_after: cut })
}

pub fn grid(tier: Tier) -> Vec<Arc<dyn Scenario>> {
    let mut out = Vec::new();
    let flavours = [Flavour::Value, Flavour::MValue, Flavour::RefMut, Flavour::SharedMut(false), Flavour::SharedMut(true), Flavour::Shared(false), Flavour::Shared(true)];
    let calls = [Call::Get, Call::SlowGet, Call::Add(1), Call::Add(10), Call::AddNc(100)];
    for f in flavours {
        // two and three clients with one call each, all combinations
        for a in calls {
            for b in calls {
                out.push(mk(f, vec![vec![a], vec![b]], None));
                if tier == Tier::Thorough {
                    for c in calls {
                        out.push(mk(f, vec![vec![a], vec![b], vec![c]], None));
                    }
                }
            }
        }
        out.push(mk(f, vec![vec![Call::Add(1), Call::Get], vec![Call::Add(10), Call::SlowGet], vec![Call::Add(100)]], None));
        if matches!(f, Flavour::MValue | Flavour::RefMut | Flavour::SharedMut(_)) {
            // the caller of a non-cancellable mutating method goes away at every poll of its call
            for p in 1..(if tier == Tier::Quick { 5 } else { 8 }) {
                out.push(mk(f, vec![vec![Call::Settle, Call::Get, Call::Settle, Call::Get], vec![Call::CancelAddNc(5, p), Call::Settle, Call::Get]], None));
                // the callee is suspended between its two side effects when the caller goes away
                out.push(mk(f, vec![vec![Call::Settle, Call::Settle, Call::OpenNcGate, Call::Settle, Call::Get], vec![Call::CancelAddNc(5, p)]], None));
                out.push(mk(f, vec![vec![Call::CancelAddNc(5, p), Call::Settle, Call::OpenNcGate, Call::Settle, Call::Get], vec![Call::Settle, Call::Settle, Call::Settle, Call::Get]], None));
                out.push(mk(f, vec![vec![Call::Get], vec![Call::CancelAddNc(5, p), Call::Get], vec![Call::Add(1)]], None));
            }
        }
        // connection cut at every frame of the calls
        for cut in 0..(if tier == Tier::Quick { 8 } else { 16 }) {
            out.push(mk(f, vec![vec![Call::Add(1)], vec![Call::Add(10), Call::Get], vec![Call::AddNc(100)]], Some(cut)));
        }
    }
    out.push(mk(Flavour::Value, vec![vec![], vec![Call::Add(1), Call::Get, Call::Take]], None));
    out.push(mk(Flavour::Value, vec![vec![], vec![Call::Take]], None));
    out
}

pub fn core(tier: Tier) -> Vec<Arc<dyn Scenario>> {
    let mut out = vec![
        mk(Flavour::SharedMut(true), vec![vec![Call::Add(1)], vec![Call::Add(10), Call::SlowGet], vec![Call::Get]], None),
        mk(Flavour::RefMut, vec![vec![Call::Add(1)], vec![Call::Add(10)], vec![Call::Add(100)]], None),
        mk(Flavour::Value, vec![vec![], vec![Call::Add(1), Call::Add(10), Call::Take]], None),
        mk(Flavour::Shared(true), vec![vec![Call::Add(1)], vec![Call::Add(10)], vec![Call::Get]], None),
    ];
    if tier == Tier::Thorough {
        out.push(mk(Flavour::SharedMut(false), vec![vec![Call::AddNc(1), Call::Get], vec![Call::Add(10)]], None));
        out.push(mk(Flavour::MValue, vec![vec![Call::Add(1), Call::SlowGet], vec![Call::Add(10)]], Some(5)));
    }
    out
}

pub fn all_scenarios(tier: Tier) -> Vec<Arc<dyn Scenario>> {
    let mut v = grid(tier);
    v.extend(core(tier));
    v.extend(super::c12f::grid(tier));
    v.extend(super::c12f::core(tier));
    v
}

pub fn run(tier: Tier, seed: u64) -> i32 {
    let mut rep = Report::new("C12", tier, seed);
    let known = known_sigs("C12");
    let q = tier == Tier::Quick;
    let pf = Params { max_dev: 0, seeds: vec![seed], time_limit: Duration::from_secs(if q { 10 } else { 300 }), ..Default::default() };
    rep.add("remote functions RFn / RFnMut / RFnOnce: local and remote callers, calls abandoned at every poll, gated executions, connection cut at every frame", explore("C12", super::c12f::grid(tier), pf, &known));
    let pf1 = Params { max_dev: if q { 1 } else { 2 }, seeds: vec![seed], time_limit: Duration::from_secs(if q { 8 } else { 600 }), ..Default::default() };
    rep.add("remote functions under schedule exploration", explore("C12", super::c12f::core(tier), pf1, &known));
    let p0 = Params { max_dev: if q { 0 } else { 1 }, seeds: vec![seed, seed + 1], time_limit: Duration::from_secs(if q { 15 } else { 600 }), ..Default::default() };
    rep.add("server flavours x client mixes x call pairs/triples; connection cut at every frame", explore("C12", grid(tier), p0, &known));
    let p = Params { max_dev: if q { 2 } else { 3 }, seeds: vec![seed], time_limit: Duration::from_secs(if q { 25 } else { 900 }), ..Default::default() };
    rep.add("concurrent clients under schedule exploration", explore("C12", core(tier), p, &known));
    rep.rule = "a case = (server flavour: by value / ref-mut / shared-mut with and without spawn / shared with and without spawn, 2-3 clients (one local, remote clones) with 1-2 calls each over {get, slow_get, add, add_nc, take}, connection cut after k frames, schedule deviations); oracle = multiset match of results to executions (at most once, own caller) + brute-force linearizability search respecting real-time order; distinct = distinct result histories; non-trivial = at least two calls returned a result. Remote functions: RFn with a local and remote clones calling concurrently, RFnMut and RFnOnce held remotely, calls abandoned at every poll index followed by further calls, executions optionally held at a gate between reading and writing their state (opened by the harness at quiescence), connection cut after k frames; oracle = own result of exactly one execution, at most once, executions of RFnMut/RFnOnce never overlap and lose no update, sequential-order search.".into();
    rep.assumptions = vec!["`add` is implemented as read - yield - write so that a missing lock shows as a lost update".into(), "real-time order is taken from the scheduler's step counter at invocation and response".into()];
    rep.finish()
}
