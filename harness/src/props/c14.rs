//! C14 Mirrors and subscriptions never diverge silently.

use futures::future::BoxFuture;
use remoc::{
    rch,
    robs::{vec::VecEvent, vec_deque::VecDequeEvent},
};
use serde::{Deserialize, Serialize};
use std::{sync::Arc, time::Duration};

use super::{
    c04::{base_pair, carrier_cfg},
    c13::{Kind, Mirror, Obs, Op, Sub},
};
use crate::{
    explore::{Params, explore},
    net::LinkOpts,
    report::{Report, Tier, known_sigs},
    util::{Shared, panic_findings, shared},
    world::{Ending, Env, Judge, Outcome, Scenario, Verdict},
};

/// How the observed collection ends after the operations.
#[derive(Debug, Clone, Copy, PartialEq, Eq)]
pub enum End {
    /// done() is called, the collection is kept
    Done,
    /// done() is called and the collection dropped at once
    DoneDrop,
    /// dropped without done()
    Drop,
    /// kept alive until the consumers have been judged
    Keep,
}

/// One observation of a mirror.
#[derive(Debug, Clone, PartialEq, Eq)]
pub enum Look {
    Ok { contents: String, complete: bool, done: bool },
    Err(String),
}

#[derive(Default)]
pub struct Consumer {
    label: String,
    /// history index at which it subscribed
    start: usize,
    mirror: bool,
    max_size: usize,
    /// mirror: observations over time; hand: replica states over time
    looks: Vec<Look>,
    states: Shared<Vec<String>>,
    /// hand: how the stream ended
    end_error: Option<String>,
    saw_done: bool,
    finished: bool,
    detached: Option<String>,
    /// mirror: observation after everything settled, and once more later
    final_look: Option<Look>,
    later_look: Option<Look>,
    spun: bool,
}

#[derive(Default)]
struct DObs {
    err: Option<String>,
    hist: Vec<String>,
    sizes: Vec<usize>,
    done: bool,
    consumers: Vec<Consumer>,
}

pub struct DivScenario {
    pub kind: Kind,
    pub init: Vec<u8>,
    pub ops: Vec<Op>,
    /// bit i set: the consumers get to run to quiescence after operation i
    pub gaps: u32,
    pub buffer: usize,
    pub max_size: usize,
    pub remote: bool,
    pub end: End,
    /// cut the connection after this many operations (remote only)
    pub cut_after: Option<usize>,
    /// an extra subscriber joins before this operation index
    pub join_at: usize,
    pub sched: bool,
}

fn lenof(kind: Kind, c: &Obs) -> usize {
    let _ = kind;
    c.len()
}

async fn watch_mirror(mut m: Mirror, idx: usize, obs: Shared<DObs>, mut stop: tokio::sync::watch::Receiver<bool>) -> Mirror {
    let mut same = 0;
    loop {
        let look = m.look_update().await;
        let ended = match &look {
            Look::Err(_) => true,
            Look::Ok { done, .. } => *done,
        };
        {
            let mut o = obs.lock().unwrap();
            let c = &mut o.consumers[idx];
            if c.looks.last() == Some(&look) {
                same += 1;
            } else {
                same = 0;
            }
            c.looks.push(look);
            if same > 40 {
                c.spun = true;
                break;
            }
        }
        if ended || *stop.borrow() {
            break;
        }
        tokio::select! {
            _ = m.changed() => {}
            _ = stop.changed() => {}
        }
    }
    m
}

impl Mirror {
    pub async fn look_update(&mut self) -> Look {
        use std::collections::{BTreeMap, BTreeSet};
        macro_rules! look {
            ($m:expr, $fmt:expr) => {
                match $m.borrow_and_update().await {
                    Ok(r) => Look::Ok { complete: r.is_complete(), done: r.is_done(), contents: $fmt(&*r) },
                    Err(e) => Look::Err(format!("{e:?}")),
                }
            };
        }
        match self {
            Mirror::Vec(m) => look!(m, |v: &Vec<u8>| format!("{v:?}")),
            Mirror::Deque(m) => look!(m, |v: &std::collections::VecDeque<u8>| format!("{:?}", v.iter().copied().collect::<Vec<_>>())),
            Mirror::Map(m) => look!(m, |v: &std::collections::HashMap<u8, u32>| format!("{:?}", v.iter().map(|(k, x)| (*k, *x)).collect::<BTreeMap<_, _>>())),
            Mirror::Set(m) => look!(m, |v: &std::collections::HashSet<u8>| format!("{:?}", v.iter().copied().collect::<BTreeSet<_>>())),
            Mirror::List(m) => look!(m, |v: &Vec<u8>| format!("{v:?}")),
        }
    }

    pub async fn changed(&mut self) {
        match self {
            Mirror::Vec(m) => m.changed().await,
            Mirror::Deque(m) => m.changed().await,
            Mirror::Map(m) => m.changed().await,
            Mirror::Set(m) => m.changed().await,
            Mirror::List(m) => m.changed().await,
        }
    }

    pub async fn look_plain(&self) -> Look {
        let s = self.look().await;
        match (s.contents, s.error) {
            (Some(contents), None) => Look::Ok { contents, complete: s.complete, done: s.done },
            (_, Some(e)) => Look::Err(e),
            _ => Look::Err("no result".into()),
        }
    }
}

fn subscribe(c: &Obs, inc: bool, buffer: usize) -> Sub {
    match (c, inc) {
        (Obs::Vec(v), false) => Sub::Vec(v.subscribe(buffer)),
        (Obs::Vec(v), true) => Sub::Vec(v.subscribe_incremental(buffer)),
        (Obs::Deque(v), false) => Sub::Deque(v.subscribe(buffer)),
        (Obs::Deque(v), true) => Sub::Deque(v.subscribe_incremental(buffer)),
        (Obs::Map(v), false) => Sub::Map(v.subscribe(buffer)),
        (Obs::Map(v), true) => Sub::Map(v.subscribe_incremental(buffer)),
        (Obs::Set(v), false) => Sub::Set(v.subscribe(buffer)),
        (Obs::Set(v), true) => Sub::Set(v.subscribe_incremental(buffer)),
        (Obs::List(v), _) => Sub::List(v.subscribe()),
    }
}

fn err_class(e: &str) -> &'static str {
    if e.starts_with("Closed") {
        "Closed"
    } else if e.starts_with("Lagged") {
        "Lagged"
    } else if e.starts_with("MaxSizeExceeded") {
        "MaxSizeExceeded"
    } else if e.starts_with("Remote") {
        "Remote"
    } else if e.starts_with("InvalidIndex") {
        "InvalidIndex"
    } else if e == "hang" {
        "hang"
    } else {
        "other"
    }
}

/// Finds `state` in `hist[from..]`; returns the index.
fn find_from(hist: &[String], from: usize, state: &str) -> Option<usize> {
    (from..hist.len()).find(|k| hist[*k] == state)
}

impl Scenario for DivScenario {
    fn id(&self) -> String {
        format!(
            "c14/{:?}/{:?}/{:?}/g{:b}/b{}/m{}/r{}/{:?}/cut{:?}/j{}/s{}",
            self.kind, self.init, self.ops, self.gaps, self.buffer, self.max_size, self.remote as u8, self.end, self.cut_after, self.join_at, self.sched as u8
        )
    }

    fn start(&self, env: Env) -> (BoxFuture<'static, ()>, Judge) {
        let obs = shared(DObs::default());
        let (kind, init, ops, gaps, buffer, max_size, remote, end, cut_after, join_at, sched) =
            (self.kind, self.init.clone(), self.ops.clone(), self.gaps, self.buffer, self.max_size, self.remote, self.end, self.cut_after, self.join_at, self.sched);
        let o2 = obs.clone();
        let n_ops = ops.len();
        let root = async move {
            env.explore(false);
            let mut ship = None;
            let mut keep = None;
            if remote {
                let link = LinkOpts { capacity: 4, deliver_cap: 4, eof_on_drop: false };
                match base_pair::<Sub, Sub, (), ()>(&env, carrier_cfg(), carrier_cfg(), link).await {
                    Ok(((a_tx, a_rx, k1, k2), (b_tx, b_rx, k3, k4))) => {
                        ship = Some((a_tx, b_rx));
                        keep = Some((a_rx, k1, k2, b_tx, k3, k4));
                    }
                    Err(e) => {
                        o2.lock().unwrap().err = Some(e);
                        return;
                    }
                }
            }
            let mut c = Some(if init.is_empty() { Obs::new(kind) } else { Obs::from_init(kind, &init) });
            let (stop_tx, stop_rx) = tokio::sync::watch::channel(false);
            let mut watchers = Vec::new();
            let mut hands = Vec::new();

            // take the subscriptions of one joining point: snapshot and incremental, mirror and hand
            macro_rules! join {
                ($pos:expr) => {{
                    let pos: usize = $pos;
                    for inc in [false, true] {
                        if kind == Kind::List && inc {
                            continue;
                        }
                        for (mirror, cancel) in [(true, None), (false, None), (false, Some(1u32))] {
                            let sub0 = subscribe(c.as_ref().unwrap(), inc, buffer);
                            let sub;
                            if let Some((tx, rx)) = ship.as_mut() {
                                // travel to the other endpoint (sent and received concurrently: it may exceed the port's receive buffer)
                                let (sent, got) = tokio::join!(tx.send(sub0), rx.recv());
                                if let Err(e) = sent {
                                    o2.lock().unwrap().err = Some(format!("ship: {e}"));
                                    return;
                                }
                                match got {
                                    Ok(Some(s)) => sub = s,
                                    other => {
                                        o2.lock().unwrap().err = Some(format!("ship recv: {:?}", other.map(|_| ()).map_err(|e| e.to_string())));
                                        return;
                                    }
                                }
                            } else {
                                sub = sub0;
                            }
                            let label = format!("join{pos}/{}/{}", if inc { "incremental" } else { "snapshot" }, if mirror { "mirror" } else if cancel.is_some() { "hand-with-abandoned-recvs" } else { "hand" });
                            let idx = {
                                let mut o = o2.lock().unwrap();
                                o.consumers.push(Consumer { label, start: pos, mirror, max_size, ..Default::default() });
                                o.consumers.len() - 1
                            };
                            let tag = if remote { 2 } else { 1 };
                            if mirror {
                                let m = sub.mirror(max_size);
                                watchers.push((idx, env.spawn("watch", tag, watch_mirror(m, idx, o2.clone(), stop_rx.clone()))));
                            } else {
                                let states = o2.lock().unwrap().consumers[idx].states.clone();
                                hands.push((idx, env.spawn("hand", tag, sub.by_hand_opts(Some(states), cancel))));
                            }
                        }
                    }
                }};
            }

            {
                let contents = c.as_ref().unwrap().contents().await;
                let mut o = o2.lock().unwrap();
                o.sizes.push(lenof(kind, c.as_ref().unwrap()));
                o.hist.push(contents);
            }
            env.explore(sched);
            for j in 0..=n_ops {
                // nobody can join over a connection that has been cut
                let cut_done = remote && cut_after.is_some_and(|k| k <= j);
                if j == 0 || (j == join_at && !cut_done) {
                    join!(j);
                }
                if j == n_ops {
                    break;
                }
                let applied = c.as_mut().unwrap().apply(ops[j]);
                if !applied {
                    o2.lock().unwrap().err = Some(format!("script error: {:?} not applicable at {j}", ops[j]));
                    return;
                }
                {
                    let contents = c.as_ref().unwrap().contents().await;
                    let mut o = o2.lock().unwrap();
                    o.sizes.push(lenof(kind, c.as_ref().unwrap()));
                    o.hist.push(contents);
                }
                if cut_after == Some(j + 1) {
                    env.dir(0, 0).cut();
                    env.dir(0, 1).cut();
                }
                if gaps & (1 << j) != 0 {
                    env.quiesce().await;
                }
            }
            match end {
                End::Done | End::DoneDrop => {
                    c.as_mut().unwrap().apply(Op::Done);
                    o2.lock().unwrap().done = true;
                    if end == End::DoneDrop {
                        c = None;
                    }
                }
                End::Drop => c = None,
                End::Keep => {}
            }
            env.quiesce().await;
            env.explore(false);
            let _ = stop_tx.send(true);
            let mut mirrors = Vec::new();
            for (idx, h) in watchers {
                match tokio::time::timeout(Duration::from_secs(30), h).await {
                    Ok(Ok(m)) => {
                        let l = m.look_plain().await;
                        o2.lock().unwrap().consumers[idx].final_look = Some(l);
                        o2.lock().unwrap().consumers[idx].finished = true;
                        mirrors.push((idx, m));
                    }
                    _ => o2.lock().unwrap().consumers[idx].end_error = Some("hang".into()),
                }
            }
            // the collection goes away (if it is still there): hand consumers of a live collection end now
            let was_alive = c.is_some();
            drop(c);
            env.quiesce().await;
            for (idx, m) in mirrors {
                let l = m.look_plain().await;
                let d = m.detach().await;
                let mut o = o2.lock().unwrap();
                o.consumers[idx].later_look = Some(l);
                o.consumers[idx].detached = Some(d);
            }
            for (idx, h) in hands {
                match tokio::time::timeout(Duration::from_secs(30), h).await {
                    Ok(Ok(seen)) => {
                        let mut o = o2.lock().unwrap();
                        let c = &mut o.consumers[idx];
                        c.finished = true;
                        c.end_error = seen.error;
                        c.saw_done = seen.done;
                        if let (Some(x), true) = (seen.contents, seen.complete) {
                            c.states.lock().unwrap().push(x);
                        }
                    }
                    _ => o2.lock().unwrap().consumers[idx].end_error = Some("hang".into()),
                }
            }
            let _ = was_alive;
            drop(keep);
            drop(ship);
        };
        let judge: Judge = Box::new(move |out: &Outcome| {
            let o = obs.lock().unwrap();
            let mut v = Verdict::default();
            v.findings.extend(panic_findings(out, "C14"));
            let kindn = format!("{kind:?}");
            if let Some(e) = &o.err {
                v.fail("C14", "setup-failed", e.clone());
            } else if out.ending != Ending::Completed {
                v.fail("C14", format!("scenario-stuck:{kindn}"), format!("{:?}", out.ending));
            } else {
                let n = o.hist.len() - 1;
                let lag_possible = buffer < 64 && kind != Kind::List;
                for c in &o.consumers {
                    let who = format!("{} ({})", c.label, if remote { "remote" } else { "local" });
                    let ctx = format!("history {:?}, done {}, end {end:?}", o.hist, o.done);
                    // the size limit is exceeded from the first history state that is too large
                    let too_big = (c.start..=n).find(|k| o.sizes[*k] > c.max_size);
                    let allowed = |class: &str| -> bool {
                        match class {
                            "Lagged" => lag_possible,
                            // with small buffers the Done marker itself can be shed, and a dropped
                            // collection is Closed
                            "Closed" => matches!(end, End::Drop | End::Keep) || (end == End::DoneDrop && lag_possible),
                            "MaxSizeExceeded" => c.mirror && too_big.is_some(),
                            "Remote" => cut_after.is_some(),
                            _ => false,
                        }
                    };
                    if c.mirror {
                        if !c.finished {
                            v.fail("C14", format!("mirror-watch-hangs:{kindn}"), format!("{who}: {ctx}"));
                            continue;
                        }
                        if c.spun {
                            v.fail("C14", format!("mirror-changed-spins:{kindn}"), format!("{who}: changed() keeps returning although nothing changes and no error or done is reported; {ctx}"));
                        }
                        let mut at = c.start;
                        let mut errored: Option<String> = None;
                        let mut all: Vec<&Look> = c.looks.iter().collect();
                        if let Some(l) = &c.final_look {
                            all.push(l);
                        }
                        if let Some(l) = &c.later_look {
                            all.push(l);
                        }
                        for l in &all {
                            match l {
                                Look::Ok { contents, complete, .. } => {
                                    if let Some(e) = &errored {
                                        v.fail("C14", format!("mirror-error-forgotten:{kindn}"), format!("{who}: reported {e}, later presented {contents} without error; {ctx}"));
                                    }
                                    if *complete {
                                        match find_from(&o.hist, at, contents) {
                                            Some(k) => at = k,
                                            None => {
                                                v.fail("C14", format!("mirror-shows-non-history-state:{kindn}"), format!("{who}: presented {contents} (after history index {at}) without error; observations {:?}; {ctx}", c.looks));
                                            }
                                        }
                                    }
                                }
                                Look::Err(e) => {
                                    if !allowed(err_class(e)) {
                                        v.fail("C14", format!("mirror-wrong-error:{kindn}:{}", err_class(e)), format!("{who}: reports {e}; {ctx}"));
                                    }
                                    errored = Some(e.clone());
                                }
                            }
                        }
                        // what it says once everything has settled
                        match c.later_look.as_ref() {
                            Some(Look::Ok { contents, complete, done }) => {
                                if *contents != o.hist[n] || !*complete {
                                    v.fail("C14", format!("mirror-stale-without-error:{kindn}"), format!("{who}: settled on {contents} (complete {complete}) with no error, the collection ended with {}; {ctx}", o.hist[n]));
                                }
                                if !o.done {
                                    // collection was dropped without done (at the latest before the later look)
                                    v.fail("C14", format!("mirror-misses-closed:{kindn}"), format!("{who}: collection dropped without done() but the mirror reports no error; {ctx}"));
                                } else if !*done {
                                    v.fail("C14", format!("mirror-misses-done:{kindn}"), format!("{who}: {ctx}"));
                                }
                                if too_big.is_some() {
                                    v.fail("C14", format!("mirror-size-limit-not-enforced:{kindn}"), format!("{who}: the collection held {} elements at history index {} but the mirror with max_size {} reports no error; {ctx}", o.sizes[too_big.unwrap()], too_big.unwrap(), c.max_size));
                                }
                            }
                            Some(Look::Err(_)) => {}
                            None => v.fail("C14", "mirror-no-result", who.clone()),
                        }
                        // last consistent contents stay retrievable
                        if let Some(d) = &c.detached {
                            let complete_seen = all.iter().any(|l| matches!(l, Look::Ok { complete: true, .. }));
                            if complete_seen && find_from(&o.hist, at, d).is_none() {
                                v.fail("C14", format!("mirror-detach-non-history-state:{kindn}"), format!("{who}: detach returned {d}, last presented history index {at}; {ctx}"));
                            }
                        }
                    } else {
                        if !c.finished {
                            v.fail("C14", format!("subscription-hangs:{kindn}"), format!("{who}: recv never ends although the collection is gone; {ctx}"));
                            continue;
                        }
                        let states = c.states.lock().unwrap();
                        let mut at = c.start;
                        for s in states.iter() {
                            match find_from(&o.hist, at, s) {
                                Some(k) => {
                                    if k > at + 1 && o.hist[at + 1..k].iter().any(|h| h != s) {
                                        // skipped over a different state: an event was lost but later ones were delivered
                                        v.fail("C14", format!("subscription-skips-events:{kindn}"), format!("{who}: replica jumped from history index {at} to {k}; states {:?}; {ctx}", *states));
                                    }
                                    at = k;
                                }
                                None => {
                                    v.fail("C14", format!("subscription-non-history-state:{kindn}"), format!("{who}: replica state {s} after index {at}; states {:?}; {ctx}", *states));
                                    break;
                                }
                            }
                        }
                        match &c.end_error {
                            None => {
                                let last = states.last().cloned().unwrap_or_default();
                                if last != o.hist[n] || !c.saw_done || !o.done {
                                    v.fail("C14", format!("subscription-ends-silently:{kindn}"), format!("{who}: stream ended without error at {last} (Done seen {}), collection ended with {} (done {}); {ctx}", c.saw_done, o.hist[n], o.done));
                                }
                            }
                            Some(e) => {
                                if !allowed(err_class(e)) {
                                    v.fail("C14", format!("subscription-wrong-error:{kindn}:{}", err_class(e)), format!("{who}: {e}; {ctx}"));
                                }
                            }
                        }
                        if kind == Kind::List {
                            // list subscribers never lag: with a healthy connection and done(), everything arrives
                            if o.done && cut_after.is_none() && (c.end_error.is_some() || states.last() != Some(&o.hist[n])) {
                                v.fail("C14", "list-subscriber-incomplete", format!("{who}: ended with {:?} at {:?}; {ctx}", c.end_error, states.last()));
                            }
                        }
                    }
                }
            }
            let summary: Vec<String> = o
                .consumers
                .iter()
                .map(|c| {
                    format!(
                        "{}:{}",
                        c.label,
                        if c.mirror {
                            match &c.later_look {
                                Some(Look::Ok { contents, .. }) => contents.clone(),
                                Some(Look::Err(e)) => err_class(e).to_string(),
                                None => "-".into(),
                            }
                        } else {
                            format!("{}{}", c.states.lock().unwrap().len(), c.end_error.as_deref().map(err_class).unwrap_or("ok"))
                        }
                    )
                })
                .collect();
            v.outcome = summary.join(",");
            v.nontrivial = o.consumers.iter().any(|c| c.end_error.is_some() || matches!(c.later_look, Some(Look::Err(_))));
            v
        });
        (Box::pin(root), judge)
    }
}

// ---- forged event streams: an event that does not apply ----

#[derive(Serialize, Deserialize)]
enum ForgedVecInitial {
    Value(Vec<u8>),
    #[allow(dead_code)]
    Incremental { len: usize, rx: rch::mpsc::Receiver<u8> },
}

#[derive(Serialize, Deserialize)]
struct ForgedVecSub {
    initial: ForgedVecInitial,
    events: Option<rch::broadcast::Receiver<VecEvent<u8>>>,
}

#[derive(Serialize, Deserialize)]
enum ForgedDequeInitial {
    Value(std::collections::VecDeque<u8>),
    #[allow(dead_code)]
    Incremental { len: usize, rx: rch::mpsc::Receiver<u8> },
}

#[derive(Serialize, Deserialize)]
struct ForgedDequeSub {
    initial: ForgedDequeInitial,
    events: Option<rch::broadcast::Receiver<VecDequeEvent<u8>>>,
}

#[derive(Debug, Clone, Copy, PartialEq, Eq)]
pub enum Bad {
    Set(usize),
    Insert(usize),
    Remove(usize),
    SwapRemove(usize),
    SwapRemoveFront(usize),
    /// resize beyond the size limit
    Resize(usize),
    /// insert beyond the size limit
    InsertFull,
    PushFull,
}

pub struct ForgedScenario {
    pub deque: bool,
    pub init: Vec<u8>,
    pub bad: Bad,
    /// valid events before the bad one
    pub before: usize,
    pub max_size: usize,
}

#[derive(Default)]
struct FObs {
    err: Option<String>,
    expected: String,
    looks: Vec<Look>,
    final_look: Option<Look>,
    detached: Option<String>,
    send_results: Vec<String>,
}

impl Scenario for ForgedScenario {
    fn id(&self) -> String {
        format!("c14-forged/{}/{:?}/{:?}/before{}/m{}", if self.deque { "deque" } else { "vec" }, self.init, self.bad, self.before, self.max_size)
    }

    fn start(&self, env: Env) -> (BoxFuture<'static, ()>, Judge) {
        let obs = shared(FObs::default());
        let o2 = obs.clone();
        let (deque, init, bad, before, max_size) = (self.deque, self.init.clone(), self.bad, self.before, self.max_size);
        let root = async move {
            env.explore(false);
            let link = LinkOpts { capacity: 4, deliver_cap: 4, eof_on_drop: false };
            // reference replica of the valid prefix
            let mut model: Vec<u8> = init.clone();
            let valid: Vec<u8> = (0..before as u8).collect();
            for x in &valid {
                model.push(*x);
            }
            o2.lock().unwrap().expected = format!("{model:?}");
            let (stop_tx, stop_rx) = tokio::sync::watch::channel(false);
            let watcher;
            let keep: Box<dyn std::any::Any + Send>;
            if !deque {
                let pair = base_pair::<ForgedVecSub, remoc::robs::vec::VecSubscription<u8>, (), ()>(&env, carrier_cfg(), carrier_cfg(), link).await;
                let ((a_tx, a_rx, k1, k2), (b_tx, mut b_rx, k3, k4)) = match pair {
                    Ok(p) => p,
                    Err(e) => {
                        o2.lock().unwrap().err = Some(e);
                        return;
                    }
                };
                let mut a_tx = a_tx;
                let btx = rch::broadcast::Sender::<VecEvent<u8>>::new();
                let rx = btx.subscribe(64);
                if let Err(e) = a_tx.send(ForgedVecSub { initial: ForgedVecInitial::Value(init.clone()), events: Some(rx) }).await {
                    o2.lock().unwrap().err = Some(format!("send forged: {e}"));
                    return;
                }
                let sub = match b_rx.recv().await {
                    Ok(Some(s)) => s,
                    other => {
                        o2.lock().unwrap().err = Some(format!("recv forged: {:?}", other.map(|_| ()).map_err(|e| e.to_string())));
                        return;
                    }
                };
                let m = Sub::Vec(sub).mirror(max_size);
                {
                    let mut o = o2.lock().unwrap();
                    let _ = &mut o;
                }
                let wobs = shared(DObs { consumers: vec![Consumer::default()], ..Default::default() });
                watcher = (env.spawn("watch", 2, watch_mirror(m, 0, wobs.clone(), stop_rx.clone())), wobs);
                for x in &valid {
                    let _ = btx.send(VecEvent::Push(*x));
                    env.quiesce().await;
                }
                let len = model.len();
                let ev = match bad {
                    Bad::Set(d) => VecEvent::Set(len + d, 9),
                    Bad::Insert(d) => VecEvent::Insert(len + 1 + d, 9),
                    Bad::Remove(d) => VecEvent::Remove(len + d),
                    Bad::SwapRemove(d) | Bad::SwapRemoveFront(d) => VecEvent::SwapRemove(len + d),
                    Bad::Resize(nl) => VecEvent::Resize(nl, 9),
                    Bad::InsertFull => VecEvent::Insert(0, 9),
                    Bad::PushFull => VecEvent::Push(9),
                };
                o2.lock().unwrap().send_results.push(format!("{:?}", btx.send(ev).map(|_| ()).map_err(|e| e.to_string())));
                env.quiesce().await;
                // a valid event afterwards must not be applied
                let _ = btx.send(VecEvent::Push(7));
                env.quiesce().await;
                keep = Box::new((a_tx, a_rx, k1, k2, b_tx, b_rx, k3, k4, btx));
            } else {
                let pair = base_pair::<ForgedDequeSub, remoc::robs::vec_deque::VecDequeSubscription<u8>, (), ()>(&env, carrier_cfg(), carrier_cfg(), link).await;
                let ((a_tx, a_rx, k1, k2), (b_tx, mut b_rx, k3, k4)) = match pair {
                    Ok(p) => p,
                    Err(e) => {
                        o2.lock().unwrap().err = Some(e);
                        return;
                    }
                };
                let mut a_tx = a_tx;
                let btx = rch::broadcast::Sender::<VecDequeEvent<u8>>::new();
                let rx = btx.subscribe(64);
                if let Err(e) = a_tx.send(ForgedDequeSub { initial: ForgedDequeInitial::Value(init.iter().copied().collect()), events: Some(rx) }).await {
                    o2.lock().unwrap().err = Some(format!("send forged: {e}"));
                    return;
                }
                let sub = match b_rx.recv().await {
                    Ok(Some(s)) => s,
                    other => {
                        o2.lock().unwrap().err = Some(format!("recv forged: {:?}", other.map(|_| ()).map_err(|e| e.to_string())));
                        return;
                    }
                };
                let m = Sub::Deque(sub).mirror(max_size);
                let wobs = shared(DObs { consumers: vec![Consumer::default()], ..Default::default() });
                watcher = (env.spawn("watch", 2, watch_mirror(m, 0, wobs.clone(), stop_rx.clone())), wobs);
                for x in &valid {
                    let _ = btx.send(VecDequeEvent::PushBack(*x));
                    env.quiesce().await;
                }
                let len = model.len();
                let ev = match bad {
                    Bad::Set(d) => VecDequeEvent::Set(len + d, 9),
                    Bad::Insert(d) => VecDequeEvent::Insert(len + 1 + d, 9),
                    Bad::Remove(d) => VecDequeEvent::Remove(len + d),
                    Bad::SwapRemove(d) => VecDequeEvent::SwapRemoveBack(len + d),
                    Bad::SwapRemoveFront(d) => VecDequeEvent::SwapRemoveFront(len + d),
                    Bad::Resize(nl) => VecDequeEvent::Resize(nl, 9),
                    Bad::InsertFull => VecDequeEvent::Insert(0, 9),
                    Bad::PushFull => VecDequeEvent::PushFront(9),
                };
                o2.lock().unwrap().send_results.push(format!("{:?}", btx.send(ev).map(|_| ()).map_err(|e| e.to_string())));
                env.quiesce().await;
                let _ = btx.send(VecDequeEvent::PushBack(7));
                env.quiesce().await;
                keep = Box::new((a_tx, a_rx, k1, k2, b_tx, b_rx, k3, k4, btx));
            }
            let _ = stop_tx.send(true);
            let (h, wobs) = watcher;
            match tokio::time::timeout(Duration::from_secs(30), h).await {
                Ok(Ok(m)) => {
                    let l = m.look_plain().await;
                    let d = m.detach().await;
                    let mut o = o2.lock().unwrap();
                    o.looks = wobs.lock().unwrap().consumers[0].looks.clone();
                    o.final_look = Some(l);
                    o.detached = Some(d);
                }
                _ => o2.lock().unwrap().err = Some("mirror watcher hangs".into()),
            }
            drop(keep);
        };
        let judge: Judge = Box::new(move |out: &Outcome| {
            let o = obs.lock().unwrap();
            let mut v = Verdict::default();
            v.findings.extend(panic_findings(out, "C14"));
            let what = format!("{}:{:?}", if deque { "Deque" } else { "Vec" }, bad).split('(').next().unwrap().to_string();
            if let Some(e) = &o.err {
                v.fail("C14", "forged-setup-failed", e.clone());
            } else if out.ending != Ending::Completed {
                v.fail("C14", format!("forged-stuck:{what}"), format!("{:?}", out.ending));
            } else {
                let expect_class = match bad {
                    Bad::Resize(_) | Bad::InsertFull | Bad::PushFull => "MaxSizeExceeded",
                    _ => "InvalidIndex",
                };
                match &o.final_look {
                    Some(Look::Err(e)) if err_class(e) == expect_class => {}
                    other => v.fail("C14", format!("inapplicable-event-not-reported:{what}"), format!("after {bad:?} on {} the mirror (max_size {max_size}) reports {other:?}, expected {expect_class}; observations {:?}; detach {:?}", o.expected, o.looks, o.detached)),
                }
                // the last consistent contents stay retrievable: nothing after the bad event is applied,
                // and for index errors the contents are exactly those before it
                if let Some(d) = &o.detached {
                    if expect_class == "InvalidIndex" && *d != o.expected {
                        v.fail("C14", format!("contents-after-inapplicable-event:{what}"), format!("detach returned {d}, contents before the bad event were {}", o.expected));
                    }
                    if d.contains('7') {
                        v.fail("C14", format!("event-applied-after-error:{what}"), format!("detach returned {d}"));
                    }
                }
                for l in &o.looks {
                    if let Look::Ok { contents, .. } = l {
                        if contents.contains('9') && expect_class == "InvalidIndex" {
                            v.fail("C14", format!("inapplicable-event-applied:{what}"), format!("mirror presented {contents}"));
                        }
                    }
                }
            }
            v.outcome = format!("{:?}|{:?}", o.final_look, o.detached);
            v.nontrivial = matches!(o.final_look, Some(Look::Err(_)));
            v
        });
        (Box::pin(root), judge)
    }
}

// ---- joining a mirror while a reader holds a borrow ----

pub struct JoinScenario {
    pub kind: Kind,
    pub inc: bool,
    /// phases are separated by quiescence (deterministic order) or left to the scheduler
    pub phased: bool,
    pub sched: bool,
}

#[derive(Default)]
struct JObs {
    err: Option<String>,
    hist: Vec<String>,
    second: Option<Look>,
    hand_states: Shared<Vec<String>>,
    hand_error: Option<String>,
    hand_done: bool,
}

impl Scenario for JoinScenario {
    fn id(&self) -> String {
        format!("c14-join/{:?}/inc{}/phased{}/s{}", self.kind, self.inc as u8, self.phased as u8, self.sched as u8)
    }

    fn start(&self, env: Env) -> (BoxFuture<'static, ()>, Judge) {
        let obs = shared(JObs::default());
        let o2 = obs.clone();
        let (kind, inc, phased, sched) = (self.kind, self.inc, self.phased, self.sched);
        let root = async move {
            env.explore(false);
            let mut c = Obs::from_init(kind, &[1]);
            let first = Arc::new(c.subscribe(false).mirror(100));
            env.quiesce().await;
            {
                let x = c.contents().await;
                o2.lock().unwrap().hist.push(x);
            }
            env.explore(sched);
            // a reader holds a borrow for a while
            let (rel_tx, rel_rx) = tokio::sync::oneshot::channel::<()>();
            let f2 = first.clone();
            let reader = env.spawn("reader", 1, async move {
                macro_rules! hold {
                    ($m:expr) => {{
                        let g = $m.borrow().await;
                        let _ = rel_rx.await;
                        drop(g);
                    }};
                }
                match &*f2 {
                    Mirror::Vec(m) => hold!(m),
                    Mirror::Deque(m) => hold!(m),
                    Mirror::Map(m) => hold!(m),
                    Mirror::Set(m) => hold!(m),
                    Mirror::List(m) => hold!(m),
                }
            });
            if phased {
                env.quiesce().await;
            }
            // an event arrives: the mirror task queues for the write lock
            let op = match kind {
                Kind::Map => Op::Insert(2, 5),
                Kind::Set => Op::Insert(2, 0),
                _ => Op::Push(2),
            };
            c.apply(op);
            {
                let x = c.contents().await;
                o2.lock().unwrap().hist.push(x);
            }
            if phased {
                env.quiesce().await;
            }
            // a subscriber joins the mirror
            let f3 = first.clone();
            let o3 = o2.clone();
            let states = o2.lock().unwrap().hand_states.clone();
            let env2 = env.clone();
            let joiner = env.spawn("joiner", 1, async move {
                let sub_m = f3.resubscribe(inc).await;
                let sub_h = f3.resubscribe(inc).await;
                let mut out = None;
                if let (Some(Ok(sm)), Some(Ok(sh))) = (sub_m, sub_h) {
                    let h = env2.spawn("hand2", 1, sh.by_hand_traced(Some(states)));
                    out = Some((sm.mirror(100), h));
                } else {
                    o3.lock().unwrap().err = Some("subscribing to the mirror failed".into());
                }
                out
            });
            if phased {
                env.quiesce().await;
            }
            let _ = rel_tx.send(());
            let _ = reader.await;
            // one more event, then done
            let op2 = match kind {
                Kind::Map => Op::Insert(0, 6),
                Kind::Set => Op::Insert(0, 0),
                _ => Op::Push(0),
            };
            c.apply(op2);
            {
                let x = c.contents().await;
                o2.lock().unwrap().hist.push(x);
            }
            c.apply(Op::Done);
            env.quiesce().await;
            env.explore(false);
            if let Ok(Some((m2, h))) = joiner.await {
                let l = m2.look_plain().await;
                o2.lock().unwrap().second = Some(l);
                if let Ok(Ok(seen)) = tokio::time::timeout(Duration::from_secs(30), h).await {
                    let mut o = o2.lock().unwrap();
                    o.hand_error = seen.error;
                    o.hand_done = seen.done;
                    if let (Some(x), true) = (seen.contents, seen.complete) {
                        o.hand_states.lock().unwrap().push(x);
                    }
                } else {
                    o2.lock().unwrap().hand_error = Some("hang".into());
                }
            }
            drop(c);
        };
        let judge: Judge = Box::new(move |out: &Outcome| {
            let o = obs.lock().unwrap();
            let mut v = Verdict::default();
            v.findings.extend(panic_findings(out, "C14"));
            if let Some(e) = &o.err {
                v.fail("C14", "join-setup-failed", e.clone());
            } else if out.ending != Ending::Completed {
                v.fail("C14", format!("join-stuck:{kind:?}"), format!("{:?}", out.ending));
            } else {
                let last = o.hist.last().cloned().unwrap_or_default();
                match &o.second {
                    Some(Look::Ok { contents, done, .. }) => {
                        if *contents != last || !*done {
                            v.fail("C14", format!("joined-mirror-diverged:{kind:?}"), format!("a mirror that joined the first mirror while a reader held a borrow presents {contents} (done {done}) without error; the collection ended with {last}; history {:?}", o.hist));
                        }
                    }
                    other => v.fail("C14", format!("joined-mirror-error:{kind:?}"), format!("{other:?}")),
                }
                let states = o.hand_states.lock().unwrap();
                let mut at = 0;
                for s in states.iter() {
                    match find_from(&o.hist, at, s) {
                        Some(k) => at = k,
                        None => {
                            v.fail("C14", format!("joined-subscription-diverged:{kind:?}"), format!("replica states {:?} leave the history {:?} without an error", *states, o.hist));
                            break;
                        }
                    }
                }
                if o.hand_error.is_some() || !o.hand_done || states.last() != Some(&last) {
                    v.fail("C14", format!("joined-subscription-incomplete:{kind:?}"), format!("ended with {:?}, done {}, states {:?}, history {:?}", o.hand_error, o.hand_done, *states, o.hist));
                }
            }
            v.outcome = format!("{:?}|{:?}", o.second, o.hand_states.lock().unwrap());
            v.nontrivial = true;
            v
        });
        (Box::pin(root), judge)
    }
}

fn script(kind: Kind) -> Vec<Op> {
    use Op::*;
    // every operation is applicable from the initial contents [1] and emits exactly one event
    match kind {
        Kind::Vec => vec![Push(0), Insert(0, 2), GetMutWrite(0, 1), Remove(0), Push(2)],
        Kind::Deque => vec![PushFront(0), Push(2), GetMutWrite(0, 1), PopFront, Push(0)],
        Kind::Map => vec![Insert(0, 1), Insert(2, 2), Insert(0, 0), Remove(2), Insert(2, 1)],
        Kind::Set => vec![Insert(0, 0), Insert(2, 0), Remove(0), Insert(0, 0), Remove(2)],
        Kind::List => vec![Push(0), Push(2), Push(1), Push(0), Push(2)],
    }
}

pub fn grid(tier: Tier) -> Vec<Arc<dyn Scenario>> {
    let q = tier == Tier::Quick;
    let mut out: Vec<Arc<dyn Scenario>> = Vec::new();
    for kind in super::c13::KINDS {
        let full = script(kind);
        let lens: &[usize] = if q { &[3] } else { &[2, 3, 5] };
        for &len in lens {
            let ops: Vec<Op> = full[..len].to_vec();
            let gap_patterns: Vec<u32> = (0..(1u32 << len)).collect();
            for gaps in gap_patterns {
                for buffer in if q { vec![1usize, 2, 1024] } else { vec![1usize, 2, 3, 1024] } {
                    for max_size in if q { vec![2usize, 100] } else { vec![1usize, 2, 3, 100] } {
                        for end in [End::Done, End::DoneDrop, End::Drop, End::Keep] {
                            for remote in [false, true] {
                                if q && remote && (gaps.count_ones() as usize) % 2 == 1 {
                                    continue;
                                }
                                let cuts: Vec<Option<usize>> = if remote { if q { vec![None, Some(2)] } else { (0..=len).map(|k| if k == 0 { None } else { Some(k) }).collect() } } else { vec![None] };
                                for cut_after in cuts {
                                    for join_at in if q { vec![2usize] } else { vec![1usize, len] } {
                                        out.push(Arc::new(DivScenario { kind, init: vec![1], ops: ops.clone(), gaps, buffer, max_size, remote, end, cut_after, join_at, sched: false }));
                                    }
                                }
                            }
                        }
                    }
                }
            }
        }
    }
    // inapplicable events
    for deque in [false, true] {
        for init in [vec![], vec![1u8, 2]] {
            for before in [0usize, 1] {
                let mut bads = vec![Bad::Set(0), Bad::Set(5), Bad::Insert(0), Bad::Insert(7), Bad::Remove(0), Bad::Remove(3), Bad::SwapRemove(0), Bad::SwapRemove(2)];
                if deque {
                    bads.push(Bad::SwapRemoveFront(0));
                    bads.push(Bad::SwapRemoveFront(4));
                }
                for bad in bads {
                    out.push(Arc::new(ForgedScenario { deque, init: init.clone(), bad, before, max_size: 100 }));
                }
                // size limit reached through events other than push
                let len = init.len() + before;
                for bad in [Bad::Resize(len + 1), Bad::Resize(50), Bad::InsertFull, Bad::PushFull] {
                    out.push(Arc::new(ForgedScenario { deque, init: init.clone(), bad, before, max_size: len }));
                }
            }
        }
    }
    // joining a mirror under a held borrow, phases in a fixed order
    for kind in [Kind::Vec, Kind::Deque, Kind::Map, Kind::Set] {
        for inc in [false, true] {
            out.push(Arc::new(JoinScenario { kind, inc, phased: true, sched: false }));
            out.push(Arc::new(JoinScenario { kind, inc, phased: false, sched: false }));
        }
    }
    out
}

pub fn sched_core(tier: Tier) -> Vec<Arc<dyn Scenario>> {
    let q = tier == Tier::Quick;
    let mut out: Vec<Arc<dyn Scenario>> = Vec::new();
    for kind in super::c13::KINDS {
        let ops: Vec<Op> = script(kind)[..3].to_vec();
        for (buffer, max_size, end, remote, cut_after, gaps) in [
            (1usize, 100usize, End::Done, false, None, 0b010u32),
            (1, 100, End::Drop, false, None, 0b000),
            (2, 2, End::DoneDrop, false, None, 0b001),
            (1, 100, End::Done, true, None, 0b010),
            (1024, 100, End::Keep, true, Some(2), 0b001),
        ] {
            if q && remote && kind != Kind::Vec && kind != Kind::List {
                continue;
            }
            out.push(Arc::new(DivScenario { kind, init: vec![1], ops: ops.clone(), gaps, buffer, max_size, remote, end, cut_after, join_at: 2, sched: true }));
        }
    }
    for kind in [Kind::Vec, Kind::Map] {
        for inc in [false, true] {
            out.push(Arc::new(JoinScenario { kind, inc, phased: false, sched: true }));
        }
    }
    out
}

pub fn all_scenarios(tier: Tier) -> Vec<Arc<dyn Scenario>> {
    let mut v = grid(tier);
    v.extend(sched_core(tier));
    v
}

pub fn run(tier: Tier, seed: u64) -> i32 {
    let mut rep = Report::new("C14", tier, seed);
    let known = known_sigs("C14");
    let q = tier == Tier::Quick;
    let p0 = Params { max_dev: 0, seeds: vec![seed], time_limit: Duration::from_secs(if q { 30 } else { 1500 }), determinism_every: 257, ..Default::default() };
    let g = grid(tier);
    rep.extra.insert("grid_cases".into(), serde_json::json!(g.len()));
    rep.add("subscriber speed patterns x event buffers x size limits x endings x cut points x joiners; forged inapplicable events; joining a mirror under a held borrow", explore("C14", g, p0, &known));
    let p1 = Params { max_dev: if q { 1 } else { 2 }, preempt: true, seeds: vec![seed], time_limit: Duration::from_secs(if q { 35 } else { 1500 }), determinism_every: 101, ..Default::default() };
    rep.add("delivery schedules of core cases (lag, drop, size limit, remote, cut, joining a mirror)", explore("C14", sched_core(tier), p1, &known));
    rep.rule = "a case = (collection type, script of 3 (quick) / 2,3,5 (thorough) single-event operations from contents [1], subset of operations after which the consumers run to quiescence (all 2^n speed patterns), event buffer 1/2/(3)/1024, mirror size limit (1)/2/(3)/100, ending done / done+drop / drop / keep, local or remote consumers, connection cut after k operations, a second group of subscribers joining mid-way); consumers per group: snapshot and incremental, a watched mirror (every change observed through borrow_and_update/changed, then borrow twice and detach) and a hand-replayed stream with its replica state recorded after every event. Forged cases: a peer-controlled broadcast sender feeds a vec/deque mirror an out-of-range Set/Insert/Remove/SwapRemove or a Resize/Insert/Push past max_size after 0/1 valid events. Join cases: a subscriber joins a mirror while a reader holds a borrow and an event is queued. distinct = distinct tuple of per-consumer endings; non-trivial = at least one consumer ended with an error.".into();
    rep.assumptions = vec![
        "history oracle: every presented state must be a state the collection went through after the subscription point, in order; a consumer that does not end on the final state must end with an error of the class its situation allows (Lagged only with small buffers, Closed only when dropped without done or when the Done marker can be shed, MaxSizeExceeded only for a mirror whose limit was crossed, Remote* only after a cut, InvalidIndex only for forged events)".into(),
        "scripts use operations that emit exactly one event each so that intermediate replica states are history states".into(),
        "Resize with a length near usize::MAX is not sent to an unfixed mirror (it would abort the checker process on allocation failure)".into(),
    ];
    rep.finish()
}
