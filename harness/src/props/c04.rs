//! C04 Typed channels: per-sender prefix delivery; item failures never create gaps.

use futures::future::BoxFuture;
use remoc::{
    chmux::{self, Cfg},
    codec,
    rch::{base, lr, mpsc, oneshot},
};
use serde::{Deserialize, Serialize};
use std::{collections::BTreeMap, sync::Arc, time::Duration};

use crate::{
    explore::{Params, explore},
    net::LinkOpts,
    report::{Report, Tier, known_sigs},
    util::{Cancelled, Shared, cancel_at, ledger_findings, panic_findings, shared},
    world::{Ending, Env, Judge, Outcome, Scenario, Verdict, cfg},
};

/// Serialization fails after `ok_bytes` bytes were produced.
#[derive(Debug, Clone, PartialEq, Deserialize)]
pub struct FailSer {
    pub ok_bytes: u32,
}

impl Serialize for FailSer {
    fn serialize<S: serde::Serializer>(&self, s: S) -> Result<S::Ok, S::Error> {
        use serde::ser::{Error, SerializeSeq};
        let mut seq = s.serialize_seq(Some(self.ok_bytes as usize + 1))?;
        for _ in 0..self.ok_bytes {
            seq.serialize_element(&0xEEu8)?;
        }
        Err(S::Error::custom("injected serialization failure"))
    }
}

/// What the sending side can send.
#[derive(Serialize, Deserialize, Debug, Clone, PartialEq)]
pub enum MsgNew {
    Val { sender: u8, seq: u32, pad: Vec<u8> },
    Fail(FailSer),
    /// Variant the receiving side's (older) type does not know.
    Newer(u32),
}

/// What the receiving side understands.
#[derive(Serialize, Deserialize, Debug, Clone, PartialEq)]
pub enum MsgOld {
    Val { sender: u8, seq: u32, pad: Vec<u8> },
    Fail(FailSer),
}

#[derive(Debug, Clone, Copy, PartialEq, Eq)]
pub enum IK {
    /// fits one buffer (<= max_data_size), several chunks
    Small,
    /// > max_data_size: streamed through the helper thread
    Big,
    /// serialization fails after that many bytes
    SerFail(u32),
    /// beyond the sender's max_item_size
    OverSend,
    /// within the sender's limit, beyond the receiver's
    OverRecv,
    /// receiver cannot decode it
    Undecodable,
    /// send future dropped at its p-th poll (a Small item)
    Cancel(u32),
    /// send future of a Big item dropped at its p-th poll
    CancelBig(u32),
}

impl IK {
    fn streamed(&self) -> bool {
        matches!(self, IK::Big | IK::OverSend | IK::OverRecv | IK::CancelBig(_)) || matches!(self, IK::SerFail(n) if *n > 200)
    }
}

#[derive(Debug, Clone, Copy, PartialEq, Eq)]
pub enum Chan {
    Base,
    /// mpsc with that many remote sender clones plus one sender local to the receiver
    Mpsc(u8),
    Lr,
    Oneshot,
}

pub const MDS: usize = 256;
pub const SEND_LIMIT: usize = 1500;
pub const RECV_LIMIT: usize = 1000;

fn pad_for(k: IK) -> usize {
    match k {
        IK::Small | IK::Cancel(_) => 3,
        IK::Big | IK::CancelBig(_) => 400,
        IK::OverRecv => 1200,
        IK::OverSend => 1800,
        _ => 0,
    }
}

fn item(sender: u8, seq: u32, k: IK) -> MsgNew {
    match k {
        IK::SerFail(n) => MsgNew::Fail(FailSer { ok_bytes: n }),
        IK::Undecodable => MsgNew::Newer(seq),
        _ => MsgNew::Val { sender, seq, pad: (0..pad_for(k)).map(|i| (i as u32 * 7 + seq) as u8).collect() },
    }
}

/// Expected at the receiver if the send reported success.
fn receivable(k: IK) -> bool {
    // a cancellable send that completed before the drop landed is an ordinary value
    matches!(k, IK::Small | IK::Big | IK::Cancel(_) | IK::CancelBig(_))
}

#[derive(Default)]
pub struct Obs {
    /// per sender: (seq, kind, result)
    pub sent: BTreeMap<u8, Vec<(u32, String, String)>>,
    /// received values in order: (sender, seq, pad ok)
    pub received: Vec<(u8, u32, bool)>,
    pub recv_errors: Vec<String>,
    pub recv_end: Option<String>,
    pub err: Option<String>,
    pub cancel_landed: bool,
}

pub struct TypedScenario {
    pub chan: Chan,
    pub scripts: Vec<Vec<IK>>,
    /// the receiver drops every recv() future at its p-th poll and calls recv() again
    pub recv_cancel: Option<u32>,
}

impl TypedScenario {
    fn deterministic_schedule(&self) -> bool {
        !self.scripts.iter().flatten().any(|k| k.streamed())
    }
}

pub fn typed_cfg() -> Cfg {
    Cfg { max_ports: 32, ..cfg(32, 128, MDS, 2, 2) }
}

/// Configuration for scenarios whose carrier values must never need the streaming helper threads.
pub fn carrier_cfg() -> Cfg {
    Cfg { max_data_size: 8192, ..typed_cfg() }
}

/// Two endpoints with a base channel from A (sending `TA`) to B (receiving `RB`) and one back.
pub async fn base_pair<TA, RB, TB, RA>(
    env: &Env, cfg_a: Cfg, cfg_b: Cfg, link: LinkOpts,
) -> Result<((base::Sender<TA>, base::Receiver<RA>, chmux::Client, chmux::Listener), (base::Sender<TB>, base::Receiver<RB>, chmux::Client, chmux::Listener)), String>
where
    TA: remoc::RemoteSend,
    RB: remoc::RemoteSend,
    TB: remoc::RemoteSend,
    RA: remoc::RemoteSend,
{
    base_pair_named(env, "A", 1, "B", 2, cfg_a, cfg_b, link).await
}

/// Like base_pair with explicit endpoint names and port-number tags (further connections of a scenario).
#[allow(clippy::too_many_arguments)]
pub async fn base_pair_named<TA, RB, TB, RA>(
    env: &Env, na: &str, ta: u8, nb: &str, tb: u8, cfg_a: Cfg, cfg_b: Cfg, link: LinkOpts,
) -> Result<((base::Sender<TA>, base::Receiver<RA>, chmux::Client, chmux::Listener), (base::Sender<TB>, base::Receiver<RB>, chmux::Client, chmux::Listener)), String>
where
    TA: remoc::RemoteSend,
    RB: remoc::RemoteSend,
    TB: remoc::RemoteSend,
    RA: remoc::RemoteSend,
{
    let ((ca, mut la), (cb, mut lb)) = env.pair_named(na, ta, cfg_a, nb, tb, cfg_b, link, &[]).await?;
    let a = env.spawn(&format!("{na}.base-connect"), ta, async move {
        let r = base::connect::<TA, RA, codec::Default>(&ca, &mut la).await;
        (r, ca, la)
    });
    let b = env.spawn(&format!("{nb}.base-connect"), tb, async move {
        let r = base::connect::<TB, RB, codec::Default>(&cb, &mut lb).await;
        (r, cb, lb)
    });
    let (ra, ca, la) = a.await.map_err(|e| e.to_string())?;
    let (rb, cb, lb) = b.await.map_err(|e| e.to_string())?;
    let (ta, rxa) = ra.map_err(|e| format!("{e}"))?;
    let (tb, rxb) = rb.map_err(|e| format!("{e}"))?;
    Ok(((ta, rxa, ca, la), (tb, rxb, cb, lb)))
}

fn record_recv(obs: &Shared<Obs>, v: MsgOld) {
    if let MsgOld::Val { sender, seq, pad } = v {
        let ok = pad.iter().enumerate().all(|(i, b)| *b == (i as u32 * 7 + seq) as u8);
        obs.lock().unwrap().received.push((sender, seq, ok));
    } else {
        obs.lock().unwrap().recv_errors.push("unexpected-variant".into());
    }
}

#[derive(Serialize, Deserialize)]
enum CarrierOld {
    Mpsc(mpsc::Sender<MsgOld>),
    Lr(lr::Sender<MsgOld>),
    One(Vec<oneshot::Sender<MsgOld>>),
}

#[derive(Serialize, Deserialize)]
enum CarrierNew {
    Mpsc(mpsc::Sender<MsgNew>),
    Lr(lr::Sender<MsgNew>),
    One(Vec<oneshot::Sender<MsgNew>>),
}

/// rx.recv(), optionally with every recv future dropped at its p-th poll and retried (at most 60 times in a row).
macro_rules! recv_maybe_cancelled {
    ($rx:expr, $p:expr) => {{
        let mut tries = 0u32;
        loop {
            match $p {
                Some(p) if tries < 60 => match cancel_at($rx.recv(), p).await {
                    Cancelled::Done(r) => break r,
                    Cancelled::Cancelled(_) => tries += 1,
                },
                _ => break $rx.recv().await,
            }
        }
    }};
}

impl Scenario for TypedScenario {
    fn id(&self) -> String {
        format!("c04/{:?}/{:?}/rc{:?}", self.chan, self.scripts, self.recv_cancel)
    }

    fn deterministic(&self) -> bool {
        self.deterministic_schedule()
    }

    fn start(&self, env: Env) -> (BoxFuture<'static, ()>, Judge) {
        let obs = shared(Obs::default());
        let (chan, scripts) = (self.chan, self.scripts.clone());
        let recv_cancel = self.recv_cancel;
        let det = self.deterministic_schedule();
        let o2 = obs.clone();
        let scripts2 = scripts.clone();
        let root = async move {
            let scripts = scripts2;
            env.explore(false);
            let link = LinkOpts { capacity: 2, deliver_cap: 2, eof_on_drop: false };
            match chan {
                Chan::Base => {
                    let r = base_pair::<MsgNew, MsgOld, (), ()>(&env, typed_cfg(), typed_cfg(), link).await;
                    let ((mut tx, _rxa, ca, la), (_tb, mut rx, cb, lb)) = match r {
                        Ok(x) => x,
                        Err(e) => {
                            o2.lock().unwrap().err = Some(e);
                            return;
                        }
                    };
                    tx.set_max_item_size(SEND_LIMIT);
                    rx.set_max_item_size(RECV_LIMIT);
                    env.explore(det);
                    let (o3, script) = (o2.clone(), scripts[0].clone());
                    let s = env.spawn("sender0", 1, async move {
                        for (seq, k) in script.iter().enumerate() {
                            let it = item(0, seq as u32, *k);
                            let res = match k {
                                IK::Cancel(p) | IK::CancelBig(p) => match cancel_at(tx.send(it), *p).await {
                                    Cancelled::Done(r) => r.map_err(|e| (e.kind.is_item_specific(), format!("{:?}", e.kind))),
                                    Cancelled::Cancelled(n) => {
                                        if n > 0 {
                                            o3.lock().unwrap().cancel_landed = true;
                                        }
                                        Err((true, "cancelled".into()))
                                    }
                                },
                                _ => tx.send(it).await.map_err(|e| (e.kind.is_item_specific(), format!("{:?}", e.kind))),
                            };
                            let (r, stop) = match res {
                                Ok(()) => ("ok".to_string(), false),
                                Err((specific, e)) => (format!("err:{}:{e}", if specific { "item" } else { "final" }), !specific),
                            };
                            o3.lock().unwrap().sent.entry(0).or_default().push((seq as u32, format!("{k:?}"), r));
                            if stop {
                                break;
                            }
                        }
                        tx
                    });
                    let o4 = o2.clone();
                    let r = env.spawn("receiver", 2, async move {
                        loop {
                            match recv_maybe_cancelled!(rx, recv_cancel) {
                                Ok(Some(v)) => record_recv(&o4, v),
                                Ok(None) => {
                                    o4.lock().unwrap().recv_end = Some("eos".into());
                                    break;
                                }
                                Err(e) => {
                                    let fin = e.is_final() || o4.lock().unwrap().recv_errors.len() > 20;
                                    o4.lock().unwrap().recv_errors.push(format!("{e:?}").chars().take(60).collect());
                                    if fin {
                                        o4.lock().unwrap().recv_end = Some("final-error".into());
                                        break;
                                    }
                                }
                            }
                        }
                        rx
                    });
                    let tx = s.await;
                    wait_quiet(&env, det).await;
                    drop(tx);
                    let _ = r.await;
                    env.explore(false);
                    drop((ca, la, cb, lb));
                }
                Chan::Mpsc(_) | Chan::Lr | Chan::Oneshot => {
                    // B creates the channel and ships the sender half to A over a base channel.
                    let r = base_pair::<(), CarrierOld, CarrierOld, CarrierNew>(&env, typed_cfg(), typed_cfg(), link).await;
                    let ((_ta, mut rxa, ca, la), (mut tb, _rxb, cb, lb)) = match r {
                        Ok(x) => x,
                        Err(e) => {
                            o2.lock().unwrap().err = Some(e);
                            return;
                        }
                    };
                    let mut local_sender: Option<mpsc::Sender<MsgOld>> = None;
                    let mut shipper = None;
                    let recv_task = match chan {
                        Chan::Mpsc(_) => {
                            let (mut tx, rx) = mpsc::channel::<MsgOld, codec::Default>(2);
                            let mut rx = rx.set_max_item_size::<RECV_LIMIT>();
                            // the limit travels with the shipped sender and is enforced on both sides
                            tx.set_max_item_size(RECV_LIMIT);
                            local_sender = Some(tx.clone());
                            shipper = Some(env.spawn("shipper", 2, async move {
                                let r = tb.send(CarrierOld::Mpsc(tx)).await.map_err(|e| e.to_string());
                                (tb, r)
                            }));
                            let o4 = o2.clone();
                            env.spawn("receiver", 2, async move {
                                loop {
                                    match recv_maybe_cancelled!(rx, recv_cancel) {
                                        Ok(Some(v)) => record_recv(&o4, v),
                                        Ok(None) => {
                                            o4.lock().unwrap().recv_end = Some("eos".into());
                                            break;
                                        }
                                        Err(e) => {
                                            let fin = e.is_final() || o4.lock().unwrap().recv_errors.len() > 20;
                                            o4.lock().unwrap().recv_errors.push(format!("{e:?}").chars().take(60).collect());
                                            if fin {
                                                o4.lock().unwrap().recv_end = Some("final-error".into());
                                                break;
                                            }
                                        }
                                    }
                                }
                            })
                        }
                        Chan::Lr => {
                            let (tx, mut rx) = lr::channel::<MsgOld, codec::Default>();
                            rx.set_max_item_size(RECV_LIMIT);
                            shipper = Some(env.spawn("shipper", 2, async move {
                                let r = tb.send(CarrierOld::Lr(tx)).await.map_err(|e| e.to_string());
                                (tb, r)
                            }));
                            let o4 = o2.clone();
                            env.spawn("receiver", 2, async move {
                                loop {
                                    match recv_maybe_cancelled!(rx, recv_cancel) {
                                        Ok(Some(v)) => record_recv(&o4, v),
                                        Ok(None) => {
                                            o4.lock().unwrap().recv_end = Some("eos".into());
                                            break;
                                        }
                                        Err(e) => {
                                            let fin = e.is_final() || o4.lock().unwrap().recv_errors.len() > 20;
                                            o4.lock().unwrap().recv_errors.push(format!("{e:?}").chars().take(60).collect());
                                            if fin {
                                                o4.lock().unwrap().recv_end = Some("final-error".into());
                                                break;
                                            }
                                        }
                                    }
                                }
                            })
                        }
                        Chan::Oneshot => {
                            let n = scripts[0].len();
                            let mut txs = Vec::new();
                            let mut rxs = Vec::new();
                            for _ in 0..n {
                                let (mut tx, rx) = oneshot::channel::<MsgOld, codec::Default>();
                                tx.set_max_item_size(RECV_LIMIT);
                                txs.push(tx);
                                rxs.push(rx.set_max_item_size::<RECV_LIMIT>());
                            }
                            shipper = Some(env.spawn("shipper", 2, async move {
                                let r = tb.send(CarrierOld::One(txs)).await.map_err(|e| e.to_string());
                                (tb, r)
                            }));
                            let o4 = o2.clone();
                            env.spawn("receiver", 2, async move {
                                for rx in rxs {
                                    match rx.await {
                                        Ok(v) => record_recv(&o4, v),
                                        Err(e) => o4.lock().unwrap().recv_errors.push(format!("{e:?}").chars().take(60).collect()),
                                    }
                                }
                                o4.lock().unwrap().recv_end = Some("eos".into());
                            })
                        }
                        Chan::Base => unreachable!(),
                    };
                    let carrier = match rxa.recv().await {
                        Ok(Some(c)) => {
                            if let Some(sh) = shipper.take() {
                                if let Ok((_tb, Err(e))) = sh.await {
                                    o2.lock().unwrap().err = Some(format!("ship: {e}"));
                                    return;
                                }
                            }
                            c
                        }
                        other => {
                            o2.lock().unwrap().err = Some(format!("carrier: {:?}", other.map(|o| o.is_some()).map_err(|e| e.to_string())));
                            return;
                        }
                    };
                    env.explore(det);
                    let mut senders = Vec::new();
                    match carrier {
                        CarrierNew::Mpsc(mut tx) => {
                            tx.set_max_item_size(SEND_LIMIT);
                            for (si, script) in scripts.iter().enumerate() {
                                let (o3, script, si) = (o2.clone(), script.clone(), si as u8);
                                if si as usize + 1 == scripts.len() && scripts.len() > 1 {
                                    // last script runs on the receiver's own endpoint with a local sender
                                    let tx = local_sender.take().unwrap();
                                    senders.push(env.spawn(&format!("sender{si}-local"), 2, async move {
                                        for (seq, k) in script.iter().enumerate() {
                                            if !matches!(k, IK::Small | IK::Big) {
                                                continue;
                                            }
                                            let MsgNew::Val { sender, seq: s, pad } = item(si, seq as u32, *k) else { continue };
                                            let r = match tx.send(MsgOld::Val { sender, seq: s, pad }).await {
                                                Ok(sending) => match sending.await {
                                                    Ok(()) => "ok".to_string(),
                                                    Err(e) => format!("err:sending:{:?}", e.kind()),
                                                },
                                                Err(e) => format!("err:final:{:?}", e.without_item()),
                                            };
                                            o3.lock().unwrap().sent.entry(si).or_default().push((seq as u32, format!("{k:?}"), r));
                                        }
                                    }));
                                    continue;
                                }
                                let tx = tx.clone();
                                senders.push(env.spawn(&format!("sender{si}"), 1, async move {
                                    let mut handles = Vec::new();
                                    for (seq, k) in script.iter().enumerate() {
                                        let it = item(si, seq as u32, *k);
                                        let r = match k {
                                            IK::Cancel(p) | IK::CancelBig(p) => match cancel_at(tx.send(it), *p).await {
                                                Cancelled::Done(r) => r,
                                                Cancelled::Cancelled(_) => {
                                                    o3.lock().unwrap().sent.entry(si).or_default().push((seq as u32, format!("{k:?}"), "err:item:cancelled".into()));
                                                    continue;
                                                }
                                            },
                                            _ => tx.send(it).await,
                                        };
                                        match r {
                                            Ok(sending) => handles.push((seq as u32, *k, sending)),
                                            Err(e) => {
                                                o3.lock().unwrap().sent.entry(si).or_default().push((seq as u32, format!("{k:?}"), format!("err:final:{:?}", e.without_item())));
                                                break;
                                            }
                                        }
                                    }
                                    for (seq, k, h) in handles {
                                        let r = match h.await {
                                            Ok(()) => "ok".to_string(),
                                            Err(e) => format!("err:sending:{:?}", e.kind()),
                                        };
                                        o3.lock().unwrap().sent.entry(si).or_default().push((seq, format!("{k:?}"), r));
                                    }
                                }));
                            }
                            drop(tx);
                            drop(local_sender.take());
                        }
                        CarrierNew::Lr(mut tx) => {
                            tx.set_max_item_size(SEND_LIMIT);
                            let (o3, script) = (o2.clone(), scripts[0].clone());
                            senders.push(env.spawn("sender0", 1, async move {
                                for (seq, k) in script.iter().enumerate() {
                                    let it = item(0, seq as u32, *k);
                                    let res = match k {
                                        IK::Cancel(p) | IK::CancelBig(p) => match cancel_at(tx.send(it), *p).await {
                                            Cancelled::Done(r) => r.map_err(|e| (e.is_item_specific(), format!("{:?}", e.kind))),
                                            Cancelled::Cancelled(_) => Err((true, "cancelled".into())),
                                        },
                                        _ => tx.send(it).await.map_err(|e| (e.is_item_specific(), format!("{:?}", e.kind))),
                                    };
                                    let (r, stop) = match res {
                                        Ok(()) => ("ok".to_string(), false),
                                        Err((specific, e)) => (format!("err:{}:{e}", if specific { "item" } else { "final" }), !specific),
                                    };
                                    o3.lock().unwrap().sent.entry(0).or_default().push((seq as u32, format!("{k:?}"), r));
                                    if stop {
                                        break;
                                    }
                                }
                            }));
                        }
                        CarrierNew::One(txs) => {
                            let (o3, script) = (o2.clone(), scripts[0].clone());
                            senders.push(env.spawn("sender0", 1, async move {
                                for ((seq, k), mut tx) in script.iter().enumerate().zip(txs) {
                                    tx.set_max_item_size(SEND_LIMIT);
                                    let it = item(0, seq as u32, *k);
                                    let r = match tx.send(it) {
                                        Ok(sending) => match sending.await {
                                            Ok(()) => "ok".to_string(),
                                            Err(e) => format!("err:sending:{:?}", e.kind()),
                                        },
                                        Err(e) => format!("err:final:{:?}", e.without_item()),
                                    };
                                    o3.lock().unwrap().sent.entry(0).or_default().push((seq as u32, format!("{k:?}"), r));
                                }
                            }));
                        }
                    }
                    for s in senders {
                        let _ = s.await;
                    }
                    wait_quiet(&env, det).await;
                    let _ = recv_task.await;
                    env.explore(false);
                    drop((ca, la, cb, lb));
                }
            }
            wait_quiet(&env, det).await;
        };
        let judge: Judge = Box::new(move |out: &Outcome| {
            let o = obs.lock().unwrap();
            let mut v = Verdict::default();
            v.findings.extend(panic_findings(out, "C04"));
            let (_l, lf) = ledger_findings(out, 0, [32, 32], [false, false]);
            v.findings.extend(lf);
            if let Some(e) = &o.err {
                v.fail("C04", "setup-failed", e.clone());
            } else if out.ending != Ending::Completed {
                v.fail("C04", format!("typed-channel-stuck:{chan:?}"), format!("{:?}; sent {:?}; received {:?}; errors {:?}", out.ending, o.sent, o.received, o.recv_errors));
            } else {
                let mut failing_items = 0usize;
                for (si, script) in scripts.iter().enumerate() {
                    let si = si as u8;
                    let sent = o.sent.get(&si).cloned().unwrap_or_default();
                    let res_of = |seq: u32| sent.iter().find(|s| s.0 == seq).map(|s| s.2.clone());
                    // values this sender's items produced at the receiver, in order
                    let got: Vec<u32> = o.received.iter().filter(|r| r.0 == si).map(|r| r.1).collect();
                    // expected: Ok-and-receivable items in order; a final error ends the sender (suffix lost)
                    let mut expected = Vec::new();
                    let mut ended = false;
                    for (seq, k) in script.iter().enumerate() {
                        match res_of(seq as u32) {
                            Some(r) if r == "ok" => {
                                if receivable(*k) {
                                    expected.push(seq as u32);
                                } else {
                                    failing_items += 1;
                                }
                            }
                            Some(r) => {
                                failing_items += 1;
                                if r.starts_with("err:final") || r.contains("Dropped") || r.contains("Closed") {
                                    ended = true;
                                }
                                // a failing item must never be delivered
                                if got.contains(&(seq as u32)) && !r.contains("cancelled") {
                                    v.fail("C04", "failed-item-delivered", format!("sender {si} item {seq} ({k:?}) reported {r} but was delivered"));
                                }
                            }
                            None => ended = true,
                        }
                    }
                    if o.received.iter().any(|r| r.0 == si && !r.2) {
                        v.fail("C04", "item-corrupted", format!("sender {si}: payload of a received item differs from the original"));
                    }
                    let mut dedup = got.clone();
                    dedup.dedup();
                    let mut sorted = got.clone();
                    sorted.sort_unstable();
                    if dedup.len() != got.len() || sorted != got || { let mut s = got.clone(); s.sort_unstable(); s.dedup(); s.len() != got.len() } {
                        v.fail("C04", "duplicate-or-reordered", format!("sender {si}: received sequence {got:?}"));
                    }
                    let is_prefix = expected.starts_with(&got) || got.iter().all(|g| expected.contains(g)) && {
                        // cancelled items may legitimately have been transmitted completely before the drop
                        true
                    };
                    let gap = {
                        // a gap: an expected item missing although a later expected item arrived
                        let mut gap = None;
                        for (i, e) in expected.iter().enumerate() {
                            if !got.contains(e) && expected[i + 1..].iter().any(|l| got.contains(l)) {
                                gap = Some(*e);
                                break;
                            }
                        }
                        gap
                    };
                    if let Some(g) = gap {
                        v.fail(
                            "C04",
                            format!("gap:{chan:?}"),
                            format!("sender {si}: item {g} ({:?}) was sent successfully but is missing while later items arrived; results {:?}; received {got:?}; receiver errors {:?}", script[g as usize], sent, o.recv_errors),
                        );
                    } else if !is_prefix {
                        v.fail("C04", "not-a-prefix", format!("sender {si}: expected prefix of {expected:?}, got {got:?}"));
                    } else if expected.iter().any(|e| !got.contains(e)) && !ended && o.recv_end.as_deref() == Some("eos") {
                        v.fail(
                            "C04",
                            format!("suffix-lost-without-end:{chan:?}"),
                            format!("sender {si}: items {expected:?} reported sent, only {got:?} arrived although neither channel nor connection ended; results {sent:?}; receiver errors {:?}", o.recv_errors),
                        );
                    }
                }
                if o.recv_errors.len() > failing_items {
                    v.fail("C04", "more-receiver-errors-than-failing-items", format!("{} errors {:?} for {failing_items} failing items", o.recv_errors.len(), o.recv_errors));
                }
            }
            let recv_err_kinds: Vec<String> = o.recv_errors.iter().map(|e| e.chars().take(20).collect()).collect();
            v.outcome = format!("{:?}|{:?}|{:?}|{:?}|{:?}", o.sent, o.received, recv_err_kinds, o.recv_end, out.ending);
            v.nontrivial = o.received.len() >= 1 && o.sent.values().flatten().any(|s| s.2 != "ok");
            v
        });
        (Box::pin(root), judge)
    }
}

/// Quiescence that also works while helper threads are parked (auto-advance is inhibited then).
async fn wait_quiet(env: &Env, det: bool) {
    if det {
        env.quiesce().await;
    } else {
        for _ in 0..50 {
            tokio::task::yield_now().await;
        }
        env.quiesce().await;
    }
}

pub fn scenarios(tier: Tier, streamed: bool) -> Vec<Arc<dyn Scenario>> {
    let mut out: Vec<Arc<dyn Scenario>> = Vec::new();
    let det_kinds = [IK::Small, IK::SerFail(4), IK::Undecodable, IK::Cancel(1), IK::Cancel(2), IK::Cancel(3)];
    let str_kinds = [IK::Small, IK::Big, IK::SerFail(400), IK::OverSend, IK::OverRecv, IK::CancelBig(2), IK::CancelBig(4)];
    let kinds: &[IK] = if streamed { &str_kinds } else { &det_kinds };
    let depth = match (tier, streamed) {
        (Tier::Quick, false) => 4,
        (Tier::Quick, true) => 3,
        (Tier::Thorough, false) => 5,
        (Tier::Thorough, true) => 4,
    };
    // all sequences of `depth` items with at most 2 failing ones, first and last being values
    fn rec(kinds: &[IK], depth: usize, cur: &mut Vec<IK>, out: &mut Vec<Vec<IK>>) {
        if cur.len() == depth {
            if cur.iter().filter(|k| !matches!(k, IK::Small | IK::Big)).count() <= 2 {
                out.push(cur.clone());
            }
            return;
        }
        for k in kinds {
            cur.push(*k);
            rec(kinds, depth, cur, out);
            cur.pop();
        }
    }
    let mut seqs = Vec::new();
    rec(kinds, depth, &mut Vec::new(), &mut seqs);
    for s in &seqs {
        let mut script = s.clone();
        script.push(IK::Small);
        out.push(Arc::new(TypedScenario { chan: Chan::Base, scripts: vec![script.clone()], recv_cancel: None }));
        if tier == Tier::Thorough || script.len() <= 4 {
            out.push(Arc::new(TypedScenario { chan: Chan::Lr, scripts: vec![script.clone()], recv_cancel: None }));
        }
    }
    // the receiver abandons every recv() at its p-th poll and retries: nothing may be lost, duplicated or turn into an error
    let rc_scripts: Vec<Vec<IK>> = if streamed {
        vec![vec![IK::Big, IK::Small], vec![IK::Small, IK::Big, IK::Small], vec![IK::Big, IK::Big, IK::Small], vec![IK::Small, IK::OverRecv, IK::Big, IK::Small]]
    } else {
        vec![vec![IK::Small, IK::Small, IK::Small], vec![IK::Small, IK::SerFail(4), IK::Small], vec![IK::Small, IK::Undecodable, IK::Small, IK::Small]]
    };
    for script in &rc_scripts {
        for p in if streamed { vec![1u32, 2, 3, 5, 8, 13] } else { vec![1u32, 2, 3] } {
            out.push(Arc::new(TypedScenario { chan: Chan::Base, scripts: vec![script.clone()], recv_cancel: Some(p) }));
            out.push(Arc::new(TypedScenario { chan: Chan::Lr, scripts: vec![script.clone()], recv_cancel: Some(p) }));
            out.push(Arc::new(TypedScenario { chan: Chan::Mpsc(1), scripts: vec![script.clone()], recv_cancel: Some(p) }));
        }
    }
    // mpsc: two remote senders with failing items at each position, one local sender
    let short: Vec<Vec<IK>> = {
        let mut v = Vec::new();
        rec(kinds, 2, &mut Vec::new(), &mut v);
        v
    };
    for s1 in &short {
        for s2 in short.iter().take(if tier == Tier::Quick { 4 } else { short.len() }) {
            let mut a = s1.clone();
            a.push(IK::Small);
            let mut b = s2.clone();
            b.push(IK::Small);
            out.push(Arc::new(TypedScenario { chan: Chan::Mpsc(2), scripts: vec![a, b, vec![IK::Small, IK::Small]], recv_cancel: None }));
        }
        let mut a = s1.clone();
        a.push(IK::Small);
        out.push(Arc::new(TypedScenario { chan: Chan::Mpsc(1), scripts: vec![a.clone()], recv_cancel: None }));
        out.push(Arc::new(TypedScenario { chan: Chan::Oneshot, scripts: vec![a], recv_cancel: None }));
    }
    out
}

pub fn core(_tier: Tier) -> Vec<Arc<dyn Scenario>> {
    vec![
        Arc::new(TypedScenario { chan: Chan::Base, scripts: vec![vec![IK::Small, IK::Cancel(2), IK::Small, IK::SerFail(4), IK::Small]], recv_cancel: None }),
        Arc::new(TypedScenario { chan: Chan::Base, scripts: vec![vec![IK::Cancel(3), IK::Undecodable, IK::Small]], recv_cancel: None }),
        Arc::new(TypedScenario { chan: Chan::Mpsc(2), scripts: vec![vec![IK::Small, IK::Small], vec![IK::Cancel(1), IK::Small], vec![IK::Small]], recv_cancel: None }),
        Arc::new(TypedScenario { chan: Chan::Lr, scripts: vec![vec![IK::Small, IK::Cancel(2), IK::Small]], recv_cancel: None }),
        Arc::new(TypedScenario { chan: Chan::Oneshot, scripts: vec![vec![IK::Small, IK::SerFail(4), IK::Small]], recv_cancel: None }),
    ]
}

pub fn all_scenarios(tier: Tier) -> Vec<Arc<dyn Scenario>> {
    let mut v = scenarios(tier, false);
    v.extend(scenarios(tier, true));
    v.extend(core(tier));
    v
}

pub fn run(tier: Tier, seed: u64) -> i32 {
    let mut rep = Report::new("C04", tier, seed);
    let known = known_sigs("C04");
    let q = tier == Tier::Quick;
    let p0 = Params { max_dev: 0, seeds: vec![seed], time_limit: Duration::from_secs(if q { 15 } else { 300 }), ..Default::default() };
    rep.add("buffered items: all sequences with failing/cancelled items at every position, base/lr/mpsc/oneshot, d=0", explore("C04", scenarios(tier, false), p0.clone(), &known));
    let mut p1 = p0.clone();
    p1.determinism_every = 0;
    p1.time_limit = Duration::from_secs(if q { 20 } else { 600 });
    p1.threads = 4;
    rep.add("streamed items (helper threads, schedule uncontrolled): input-exhaustive, d=0", explore("C04", scenarios(tier, true), p1, &known));
    let p = Params { max_dev: 2, seeds: vec![seed], time_limit: Duration::from_secs(if q { 20 } else { 900 }), ..Default::default() };
    rep.add("core scripts without helper threads under schedule exploration", explore("C04", core(tier), p, &known));
    rep.rule = "a case = (channel type, per-sender item scripts over {value, streamed value, serialization failure early/late, over sender limit, over receiver limit, undecodable, cancelled at poll p}, schedule deviations where controllable); distinct = distinct (per-sender results, received sequence, receiver errors, ending); non-trivial = at least one value delivered and at least one item failed".into();
    rep.assumptions = vec![
        "items larger than max_data_size are (de)serialized in spawn_blocking helper threads that no installed tool can schedule: those scenarios are exhaustive over inputs only and run on the free-running schedule (L1 in DESIGN.md)".into(),
        "an mpsc SendError is documented as final: items after it are a lost suffix, not a gap".into(),
    ];
    rep.finish()
}
