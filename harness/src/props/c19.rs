//! C19 Abandoned or failing calls are cancelled and never wedge the server.

use futures::future::BoxFuture;
use remoc::{
    codec,
    rtc::{Client as _, Server as _, ServerRefMut as _, ServerSharedMut as _},
};
use serde::{Deserialize, Serialize};
use std::{
    sync::{Arc, Mutex},
    time::Duration,
};

use super::{
    c04::{base_pair, carrier_cfg as typed_cfg},
    c12::{AcctM, AcctM2, AcctM2Client, AcctMClient, AcctMServer, AcctMServerRefMut, AcctMServerSharedMut, Ev, Flavour, Gate, Obj},
};
use crate::{
    explore::{Params, explore},
    net::LinkOpts,
    report::{Report, Tier, known_sigs},
    util::{Cancelled, cancel_at, panic_findings, shared},
    world::{Ending, Env, Judge, Outcome, Scenario, Verdict},
};

type C = codec::Default;

#[derive(Serialize, Deserialize)]
enum ShipA {
    Good(AcctMClient),
    Skew(AcctMClient),
}

#[derive(Serialize, Deserialize)]
enum ShipB {
    Good(AcctMClient),
    Skew(AcctM2Client),
}

#[derive(Debug, Clone, Copy, PartialEq, Eq)]
pub enum Stage {
    /// call future dropped before it was ever polled
    BeforeQueue,
    /// dropped while queued behind another executing call
    QueuedBehind,
    /// dropped while the method waits at its first / second suspension point
    AtGate1,
    AtGate2,
    /// dropped while the reply is in flight
    ReplyInFlight,
    /// the caller's connection is cut while the method waits at its first suspension point
    ConnectionCut,
    /// dropped while a reply larger than the caller's flow-control window is being transferred
    BigReplyInFlight,
    /// the caller's connection is cut while such a reply is being transferred
    BigReplyCut,
}

#[derive(Debug, Clone, Copy, PartialEq, Eq)]
pub enum Failing {
    UnknownMethod,
    BadArguments,
    BigRequest,
    BigReply,
}

#[derive(Debug, Clone, PartialEq, Eq)]
pub enum Case {
    /// abandoned call at a stage; `no_cancel` selects slow_nc
    Abandon { stage: Stage, no_cancel: bool },
    /// a failing item at position `pos` (0..=2) among three calls
    Fail { what: Failing, pos: usize },
}

pub struct WedgeScenario {
    pub flavour: Flavour,
    pub case: Case,
}

#[derive(Default)]
struct Obs {
    err: Option<String>,
    a_result: Option<String>,
    b_results: Vec<String>,
    fail_result: Option<String>,
    serve_running: Option<bool>,
    serve_result: Option<String>,
    log: Vec<Ev>,
}

const LIMIT: usize = 300;

impl Scenario for WedgeScenario {
    fn id(&self) -> String {
        format!("c19/{:?}/{:?}", self.flavour, self.case)
    }

    fn deterministic(&self) -> bool {
        // oversized items are streamed through helper threads
        !matches!(self.case, Case::Fail { what: Failing::BigRequest | Failing::BigReply, .. })
    }

    fn start(&self, env: Env) -> (BoxFuture<'static, ()>, Judge) {
        let obs = shared(Obs::default());
        let (flavour, case) = (self.flavour, self.case.clone());
        let o2 = obs.clone();
        let case2 = case.clone();
        let root = async move {
            let case = case2;
            env.explore(false);
            let link = LinkOpts { capacity: 2, deliver_cap: 2, eof_on_drop: true };
            // connection 1: server endpoint S(1) <-> client A's endpoint (2)
            let ab = base_pair::<ShipA, ShipB, (), ()>(&env, typed_cfg(), typed_cfg(), link).await;
            let ((mut s_tx, _s_rx, k1, k2), (_b_tx, mut a_rx, k3, k4)) = match ab {
                Ok(x) => x,
                Err(e) => {
                    o2.lock().unwrap().err = Some(e);
                    return;
                }
            };
            let (obj, log, gate): (Obj, Arc<Mutex<Vec<Ev>>>, Arc<Gate>) = Obj::new();
            let (mut client, server_task): (AcctMClient, tokio::task::JoinHandle<String>) = match flavour {
                Flavour::RefMut => {
                    let (tx, rx) = tokio::sync::oneshot::channel();
                    let h = env.spawn("server", 1, async move {
                        let mut obj = obj;
                        let (server, client) = AcctMServerRefMut::<_, C>::new(&mut obj, 2);
                        let _ = tx.send(client);
                        format!("{:?}", server.serve().await)
                    });
                    match rx.await {
                        Ok(c) => (c, h),
                        Err(_) => return,
                    }
                }
                Flavour::SharedMut(spawn) => {
                    let (server, client) = AcctMServerSharedMut::<_, C>::new(Arc::new(tokio::sync::RwLock::new(obj)), 2);
                    (client, env.spawn("server", 1, async move { format!("{:?}", server.serve(spawn).await) }))
                }
                _ => {
                    let (server, client) = AcctMServer::<_, C>::new(obj, 2);
                    (client, env.spawn("server", 1, async move { format!("{:?}", server.serve().await.1) }))
                }
            };
            client.set_max_request_size(LIMIT);
            client.set_max_reply_size(LIMIT);
            // B stays on the server's endpoint (local client); A's clients travel
            let mut b_client = client.clone();
            let (s1, r1) = tokio::join!(s_tx.send(ShipA::Good(client.clone())), a_rx.recv());
            let (s2, r2) = tokio::join!(s_tx.send(ShipA::Skew(client)), a_rx.recv());
            let (mut a_client, mut a_skew) = match (s1, r1, s2, r2) {
                (Ok(()), Ok(Some(ShipB::Good(g))), Ok(()), Ok(Some(ShipB::Skew(s)))) => (g, s),
                _ => {
                    o2.lock().unwrap().err = Some("ship clients".into());
                    return;
                }
            };
            env.quiesce().await;
            env.explore(true);
            match case {
                Case::Abandon { stage, no_cancel } => {
                    // another call occupies the server first when the abandoned one must be queued
                    let mut blocker = None;
                    if stage == Stage::QueuedBehind {
                        let mut bc = b_client.clone();
                        blocker = Some(env.spawn("blocker", 1, async move { bc.slow(9).await.map_err(|e| format!("{e:?}")) }));
                        env.quiesce().await;
                    }
                    match stage {
                        Stage::AtGate2 => gate.open(1),
                        Stage::ReplyInFlight => {
                            gate.open(2);
                            env.dir(0, 0).hold(true);
                        }
                        Stage::BigReplyInFlight | Stage::BigReplyCut => env.dir(0, 0).hold(true),
                        _ => {}
                    }
                    let big = matches!(stage, Stage::BigReplyInFlight | Stage::BigReplyCut);
                    let p = if stage == Stage::BeforeQueue { 0 } else { 1000 };
                    let o3 = o2.clone();
                    let a = env.spawn("caller-A", 2, async move {
                        // with p = 1000 the future is dropped at quiescence, i.e. at the chosen stage
                        let r = if big {
                            // 250 bytes: below the reply size limit, about twice the caller's receive buffer
                            match cancel_at(a_client.big(250), p).await {
                                Cancelled::Done(r) => Cancelled::Done(r.map(|v| v.len() as u32)),
                                Cancelled::Cancelled(n) => Cancelled::Cancelled(n),
                            }
                        } else if no_cancel {
                            cancel_at(a_client.slow_nc(1), p).await
                        } else {
                            cancel_at(a_client.slow(1), p).await
                        };
                        o3.lock().unwrap().a_result = Some(match r {
                            Cancelled::Done(r) => format!("done:{:?}", r.map_err(|e| format!("{e:?}"))),
                            Cancelled::Cancelled(n) => format!("dropped@{n}"),
                        });
                        a_client
                    });
                    if matches!(stage, Stage::ConnectionCut | Stage::BigReplyCut) {
                        env.quiesce().await;
                        env.dir(0, 0).cut();
                        env.dir(0, 1).cut();
                    }
                    let _a_client = a.await;
                    env.dir(0, 0).hold(false);
                    // the server must have learned of the abandonment before the method may continue
                    env.quiesce().await;
                    env.quiesce().await;
                    gate.open(100);
                    env.quiesce().await;
                    if let Some(b) = blocker {
                        let r = b.await;
                        o2.lock().unwrap().b_results.push(format!("blocker:{:?}", r.ok()));
                    }
                }
                Case::Fail { what, pos } => {
                    gate.open(100);
                    for i in 0..3 {
                        if i == pos {
                            let r = match what {
                                Failing::UnknownMethod => a_skew.brand_new(5).await.map(|v| v as i64),
                                Failing::BadArguments => a_skew.add("not a number".to_string()).await,
                                Failing::BigRequest => a_client.eat(vec![1; 4 * LIMIT]).await.map(|v| v as i64),
                                Failing::BigReply => a_client.big(4 * LIMIT as u32).await.map(|v| v.len() as i64),
                            };
                            o2.lock().unwrap().fail_result = Some(format!("{:?}", r.map_err(|e| format!("{e:?}").chars().take(40).collect::<String>())));
                        } else {
                            let r = a_client.add(1).await;
                            o2.lock().unwrap().b_results.push(format!("a.add:{:?}", r.map_err(|e| format!("{e:?}").chars().take(40).collect::<String>())));
                        }
                    }
                }
            }
            // Afterwards the other client's calls must complete: lock released, serve loop alive.
            let r = tokio::time::timeout(Duration::from_secs(20), b_client.slow(2)).await;
            o2.lock().unwrap().b_results.push(format!("b.slow:{}", match r {
                Err(_) => "hang".to_string(),
                Ok(r) => format!("{:?}", r.map_err(|e| format!("{e:?}").chars().take(40).collect::<String>())),
            }));
            let r = tokio::time::timeout(Duration::from_secs(20), b_client.get()).await;
            o2.lock().unwrap().b_results.push(format!("b.get:{}", match r {
                Err(_) => "hang".to_string(),
                Ok(r) => format!("{:?}", r.map_err(|e| format!("{e:?}").chars().take(40).collect::<String>())),
            }));
            o2.lock().unwrap().serve_running = Some(!server_task.is_finished());
            env.explore(false);
            drop(b_client);
            drop(a_skew);
            drop(_a_client_holder(&mut s_tx));
            let r = tokio::time::timeout(Duration::from_secs(10), server_task).await;
            {
                let mut o = o2.lock().unwrap();
                o.serve_result = Some(match r {
                    Ok(Ok(s)) => s,
                    Ok(Err(e)) => format!("join:{e}"),
                    Err(_) => "still-serving".into(),
                });
                o.log = log.lock().unwrap().clone();
            }
            drop((s_tx, a_rx, k1, k2, k3, k4));
        };
        let judge: Judge = Box::new(move |out: &Outcome| {
            let o = obs.lock().unwrap();
            let mut v = Verdict::default();
            v.findings.extend(panic_findings(out, "C19"));
            if let Some(e) = &o.err {
                v.fail("C19", "setup-failed", e.clone());
            } else if out.ending != Ending::Completed {
                v.fail("C19", "server-wedged:stuck", format!("{:?}: a {:?} b {:?}", out.ending, o.a_result, o.b_results));
            } else {
                let kind = match &case {
                    Case::Fail { what, .. } => format!("{what:?}"),
                    Case::Abandon { stage, no_cancel } => format!("{stage:?}{}", if *no_cancel { "-nc" } else { "" }),
                };
                // the other client's calls
                for r in &o.b_results {
                    if r.starts_with("b.") && (r.contains("hang") || r.contains("Err")) {
                        v.fail("C19", format!("server-wedged:{}:{kind}", r.split(':').next().unwrap_or("")), format!("after {case:?} on {flavour:?}: other client's call {r}; all: {:?}; log {:?}", o.b_results, o.log));
                    }
                    // (an over-long request is documented to end that client's request channel; the
                    // property only speaks about unknown methods, undecodable requests and over-long replies)
                    if r.starts_with("a.add") && r.contains("Err") && !matches!(case, Case::Fail { what: Failing::BigRequest, .. }) {
                        v.fail("C19", format!("failing-call-broke-other-calls:{kind}"), format!("{case:?}: {r} (all {:?}, failing call {:?})", o.b_results, o.fail_result));
                    }
                    if r.starts_with("blocker") && !r.contains("Some(Ok(9))") {
                        v.fail("C19", "unrelated-call-disturbed", format!("{r}"));
                    }
                }
                if o.serve_running == Some(false) {
                    let sig = match &case {
                        Case::Fail { what, .. } => format!("serve-ended:{what:?}"),
                        Case::Abandon { stage, .. } => format!("serve-ended:{stage:?}"),
                    };
                    v.fail("C19", sig, format!("serve() returned {:?} although a client is still connected (case {case:?}); b {:?}", o.serve_result, o.b_results));
                }
                match &case {
                    Case::Abandon { stage, no_cancel } => {
                        // execution record of the abandoned call: tag 1
                        let id = o.log.iter().find_map(|e| if let Ev::Start { id, arg: 1, method } = e { if method.starts_with("slow") { Some(*id) } else { None } } else { None });
                        let mid = id.map(|id| o.log.iter().any(|e| *e == Ev::Mid { id })).unwrap_or(false);
                        let fin = id.map(|id| o.log.iter().any(|e| matches!(e, Ev::Finish { id: i, .. } if *i == id))).unwrap_or(false);
                        if *no_cancel {
                            if id.is_some() && !fin {
                                v.fail("C19", "no-cancel-method-abandoned", format!("{stage:?}: slow_nc started but did not finish: {:?}", o.log));
                            }
                        } else {
                            let must_stop = matches!(stage, Stage::AtGate1 | Stage::AtGate2 | Stage::QueuedBehind | Stage::ConnectionCut);
                            let progressed = match stage {
                                Stage::AtGate1 | Stage::QueuedBehind | Stage::ConnectionCut => mid,
                                Stage::AtGate2 => fin,
                                _ => false,
                            };
                            if must_stop && progressed {
                                v.fail("C19", format!("abandoned-call-not-cancelled:{stage:?}"), format!("the caller was gone and the server had settled before the method was allowed to continue, yet it ran on: {:?}", o.log));
                            }
                        }
                        if *stage == Stage::BeforeQueue && id.is_some() {
                            v.fail("C19", "never-polled-call-executed", format!("{:?}", o.log));
                        }
                    }
                    Case::Fail { what, .. } => {
                        match &o.fail_result {
                            Some(r) if r.starts_with("Err") => {}
                            other => v.fail("C19", format!("failing-call-did-not-fail:{what:?}"), format!("{other:?}")),
                        }
                    }
                }
            }
            v.outcome = format!("{:?}|{:?}|{:?}|{:?}|{:?}", o.a_result, o.b_results, o.fail_result, o.serve_running, o.log.len());
            v.nontrivial = o.log.len() >= 2;
            v
        });
        (Box::pin(root), judge)
    }
}

fn _a_client_holder<T>(_t: &mut T) {}

pub fn scenarios(tier: Tier) -> Vec<Arc<dyn Scenario>> {
    let mut out: Vec<Arc<dyn Scenario>> = Vec::new();
    let flavours = [Flavour::MValue, Flavour::RefMut, Flavour::SharedMut(false), Flavour::SharedMut(true)];
    let _ = tier;
    for f in flavours {
        for stage in [Stage::BeforeQueue, Stage::QueuedBehind, Stage::AtGate1, Stage::AtGate2, Stage::ReplyInFlight, Stage::ConnectionCut, Stage::BigReplyInFlight, Stage::BigReplyCut] {
            for no_cancel in [false, true] {
                if no_cancel && matches!(stage, Stage::BigReplyInFlight | Stage::BigReplyCut) {
                    continue;
                }
                out.push(Arc::new(WedgeScenario { flavour: f, case: Case::Abandon { stage, no_cancel } }));
            }
        }
        // (mismatched argument types are not enumerated: the default codec is lenient and decodes them)
        for what in [Failing::UnknownMethod, Failing::BigRequest, Failing::BigReply] {
            for pos in 0..3 {
                out.push(Arc::new(WedgeScenario { flavour: f, case: Case::Fail { what, pos } }));
            }
        }
    }
    out
}

// ---- clients on several connections lose them one after the other ----

/// The server has a local client and one remote client on each of two connections; the connections fail
/// one after the other (each remote client with or without a call in flight); the local client must keep
/// being served.
pub struct TwoConnScenario {
    pub flavour: Flavour,
    pub calls_in_flight: bool,
}

#[derive(Default)]
struct TwoObs {
    err: Option<String>,
    local_calls: Vec<String>,
    serve_running: Option<bool>,
    serve_result: Option<String>,
}

impl Scenario for TwoConnScenario {
    fn id(&self) -> String {
        format!("c19-two-connections/{:?}/inflight{}", self.flavour, self.calls_in_flight as u8)
    }

    fn start(&self, env: Env) -> (BoxFuture<'static, ()>, Judge) {
        let obs = shared(TwoObs::default());
        let o2 = obs.clone();
        let (flavour, in_flight) = (self.flavour, self.calls_in_flight);
        let root = async move {
            env.explore(false);
            let link = LinkOpts { capacity: 2, deliver_cap: 2, eof_on_drop: true };
            let c1 = base_pair::<ShipA, ShipB, (), ()>(&env, typed_cfg(), typed_cfg(), link).await;
            let c2 = super::c04::base_pair_named::<ShipA, ShipB, (), ()>(&env, "S2", 3, "C", 4, typed_cfg(), typed_cfg(), link).await;
            let (((mut s1_tx, _s1_rx, k1, k2), (_a_tx, mut a_rx, k3, k4)), ((mut s2_tx, _s2_rx, k5, k6), (_c_tx, mut c_rx, k7, k8))) = match (c1, c2) {
                (Ok(x), Ok(y)) => (x, y),
                _ => {
                    o2.lock().unwrap().err = Some("connections".into());
                    return;
                }
            };
            let (obj, _log, gate): (Obj, Arc<Mutex<Vec<Ev>>>, Arc<Gate>) = Obj::new();
            let (client, server_task): (AcctMClient, tokio::task::JoinHandle<String>) = match flavour {
                Flavour::SharedMut(spawn) => {
                    let (server, client) = AcctMServerSharedMut::<_, C>::new(Arc::new(tokio::sync::RwLock::new(obj)), 2);
                    (client, env.spawn("server", 1, async move { format!("{:?}", server.serve(spawn).await) }))
                }
                _ => {
                    let (server, client) = AcctMServer::<_, C>::new(obj, 2);
                    (client, env.spawn("server", 1, async move { format!("{:?}", server.serve().await.1) }))
                }
            };
            let mut local = client.clone();
            let (s, r) = tokio::join!(s1_tx.send(ShipA::Good(client.clone())), a_rx.recv());
            let mut remote1 = match (s, r) {
                (Ok(()), Ok(Some(ShipB::Good(c)))) => c,
                _ => {
                    o2.lock().unwrap().err = Some("ship 1".into());
                    return;
                }
            };
            let (s, r) = tokio::join!(s2_tx.send(ShipA::Good(client)), c_rx.recv());
            let mut remote2 = match (s, r) {
                (Ok(()), Ok(Some(ShipB::Good(c)))) => c,
                _ => {
                    o2.lock().unwrap().err = Some("ship 2".into());
                    return;
                }
            };
            env.quiesce().await;
            gate.open(1000);
            // everybody is served first
            let r0 = (local.get().await.is_ok(), remote1.get().await.is_ok(), remote2.get().await.is_ok());
            o2.lock().unwrap().local_calls.push(format!("before:{r0:?}"));
            let mut pend = Vec::new();
            if in_flight {
                let mut c = remote1.clone();
                pend.push(env.spawn("remote1-call", 2, async move { c.add(1).await.is_ok() }));
                let mut c = remote2.clone();
                pend.push(env.spawn("remote2-call", 4, async move { c.add(2).await.is_ok() }));
            }
            for link_idx in 0..2usize {
                env.dir(link_idx, 0).cut();
                env.dir(link_idx, 1).cut();
                env.quiesce().await;
                let r = tokio::time::timeout(Duration::from_secs(20), local.add(10)).await;
                o2.lock().unwrap().local_calls.push(format!("after-cut{}:{}", link_idx + 1, match r {
                    Err(_) => "hang".to_string(),
                    Ok(r) => format!("{:?}", r.map_err(|e| format!("{e:?}").chars().take(40).collect::<String>())),
                }));
            }
            env.quiesce().await;
            let r = tokio::time::timeout(Duration::from_secs(20), local.get()).await;
            o2.lock().unwrap().local_calls.push(format!("finally:{}", match r {
                Err(_) => "hang".to_string(),
                Ok(r) => format!("{:?}", r.map_err(|e| format!("{e:?}").chars().take(40).collect::<String>())),
            }));
            o2.lock().unwrap().serve_running = Some(!server_task.is_finished());
            for p in pend {
                let _ = tokio::time::timeout(Duration::from_secs(30), p).await;
            }
            drop((local, remote1, remote2));
            let r = tokio::time::timeout(Duration::from_secs(10), server_task).await;
            o2.lock().unwrap().serve_result = Some(match r {
                Ok(Ok(s)) => s,
                Ok(Err(e)) => format!("join:{e}"),
                Err(_) => "still-serving".into(),
            });
            drop((s1_tx, a_rx, s2_tx, c_rx, k1, k2, k3, k4, k5, k6, k7, k8));
        };
        let judge: Judge = Box::new(move |out: &Outcome| {
            let o = obs.lock().unwrap();
            let mut v = Verdict::default();
            v.findings.extend(panic_findings(out, "C19"));
            if let Some(e) = &o.err {
                v.fail("C19", "setup-failed", e.clone());
            } else if out.ending != Ending::Completed {
                v.fail("C19", "server-wedged:stuck", format!("{:?}: {:?}", out.ending, o.local_calls));
            } else {
                let ctx = format!("two remote clients lost their connections one after the other (calls in flight: {in_flight}); the local client's calls: {:?}; serve() running afterwards: {:?} ({:?})", o.local_calls, o.serve_running, o.serve_result);
                if o.local_calls.iter().skip(1).any(|c| c.contains("hang") || c.contains("Err")) {
                    v.fail("C19", "server-wedged:local-client-after-connection-losses", ctx.clone());
                }
                if o.serve_running == Some(false) {
                    v.fail("C19", "serve-ended:connection-losses", ctx);
                }
            }
            v.outcome = format!("{:?}|{:?}", o.local_calls, o.serve_running);
            v.nontrivial = true;
            v
        });
        (Box::pin(root), judge)
    }
}

pub fn two_conn_scenarios() -> Vec<Arc<dyn Scenario>> {
    let mut out: Vec<Arc<dyn Scenario>> = Vec::new();
    for f in [Flavour::MValue, Flavour::SharedMut(false), Flavour::SharedMut(true)] {
        for inflight in [false, true] {
            out.push(Arc::new(TwoConnScenario { flavour: f, calls_in_flight: inflight }));
        }
    }
    out
}

pub fn all_scenarios(tier: Tier) -> Vec<Arc<dyn Scenario>> {
    let mut v = scenarios(tier);
    v.extend(two_conn_scenarios());
    v
}

pub fn run(tier: Tier, seed: u64) -> i32 {
    let mut rep = Report::new("C19", tier, seed);
    let known = known_sigs("C19");
    let q = tier == Tier::Quick;
    let p = Params { max_dev: if q { 2 } else { 3 }, seeds: vec![seed, seed + 1], time_limit: Duration::from_secs(if q { 30 } else { 1200 }), ..Default::default() };
    let p2 = Params { max_dev: if q { 0 } else { 1 }, seeds: vec![seed], time_limit: Duration::from_secs(if q { 8 } else { 300 }), ..Default::default() };
    rep.add("clients on two connections lose them one after the other (with and without calls in flight) while a local client keeps calling", explore("C19", two_conn_scenarios(), p2, &known));
    rep.add("abandonment stage x cancellable/no_cancel x server flavour; failing item kind x position", explore("C19", scenarios(tier), p, &known));
    rep.rule = "a case = (server flavour, either: call future dropped before queueing / queued behind another call / executing at its first or second suspension point / with the reply in flight / caller connection cut, for a cancellable and a #[no_cancel] method; or: unknown method, undecodable arguments, request beyond max_request_size, reply beyond max_reply_size at position 0..2 among three calls; schedule deviations); oracle = execution log of the target object + results of another client's calls afterwards + serve() still running; distinct = distinct result tuples; non-trivial = the target executed at least one call".into();
    rep.assumptions = vec!["cancellation is required only after the server can have learned of it: the gate that lets the method continue is opened after two quiescence periods with the caller gone".into()];
    rep.finish()
}
