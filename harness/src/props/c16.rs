//! C16 Broadcast: ordered delivery with an explicit lag marker at every gap.

use futures::future::BoxFuture;
use remoc::{
    codec,
    rch::broadcast::{self, RecvError},
};
use serde::{Deserialize, Serialize};
use std::{collections::BTreeMap, sync::Arc, time::Duration};

use super::c04::{base_pair, carrier_cfg as typed_cfg};
use crate::{
    explore::{Params, explore},
    net::LinkOpts,
    report::{Report, Tier, known_sigs},
    util::{Shared, panic_findings, shared, yield_once},
    world::{Ending, Env, Judge, Outcome, Scenario, Verdict},
};

type C = codec::Default;

#[derive(Serialize, Deserialize)]
enum Ship {
    R1(u8, broadcast::Receiver<u32, C, 1>),
    R2(u8, broadcast::Receiver<u32, C, 2>),
}

/// How a subscriber consumes.
#[derive(Debug, Clone, Copy, PartialEq, Eq)]
pub enum Pattern {
    /// consumes all the time
    KeepUp,
    /// consumes j values, then stalls until the burst is over, then drains
    StallAfter(u32),
    /// never consumes (kept alive)
    Never,
    /// dropped after j values
    LeaveAfter(u32),
}

#[derive(Debug, Clone, PartialEq, Eq)]
pub struct Sub {
    pub remote: bool,
    pub send_buffer: usize,
    pub recv_buffer: usize,
    pub pattern: Pattern,
    /// subscribes after that many values were sent
    pub join_after: u32,
}

#[derive(Debug, Clone, PartialEq, Eq)]
pub struct BcastScenario {
    pub n: u32,
    pub subs: Vec<Sub>,
    /// the sender waits for quiescence between sends
    pub paced: bool,
    /// every sender is dropped before the stalled subscribers start to drain
    pub drop_first: bool,
    /// values are fed through Sender::feeder() instead of Sender::send()
    pub via_feeder: bool,
}

#[derive(Default)]
struct Obs {
    /// subscriber -> events ("v3" / "lag" / "closed" / error)
    events: BTreeMap<u8, Vec<String>>,
    send_results: Vec<String>,
    err: Option<String>,
    burst_done: bool,
    /// the channel has been ended (all senders dropped); subscribers that never consumed may drain now
    end_done: bool,
}

enum AnyRx {
    R1(broadcast::Receiver<u32, C, 1>),
    R2(broadcast::Receiver<u32, C, 2>),
}

impl AnyRx {
    async fn recv(&mut self) -> Result<u32, RecvError> {
        match self {
            AnyRx::R1(r) => r.recv().await,
            AnyRx::R2(r) => r.recv().await,
        }
    }
}

async fn consume(id: u8, mut rx: AnyRx, pattern: Pattern, obs: Shared<Obs>, gate: Arc<tokio::sync::Notify>) {
    let mut got = 0u32;
    let mut released = false;
    let push = |obs: &Shared<Obs>, s: String| obs.lock().unwrap().events.entry(id).or_default().push(s);
    obs.lock().unwrap().events.entry(id).or_default();
    loop {
        match pattern {
            Pattern::Never if !released => {
                // released only at the very end, then it drains without further waiting
                gate.notified().await;
                released = obs.lock().unwrap().end_done;
            }
            Pattern::StallAfter(j) if got == j && !obs.lock().unwrap().burst_done => {
                gate.notified().await;
            }
            Pattern::LeaveAfter(j) if got >= j => {
                push(&obs, "left".into());
                return;
            }
            _ => {}
        }
        match tokio::time::timeout(Duration::from_secs(30), rx.recv()).await {
            Ok(Ok(v)) => {
                got += 1;
                push(&obs, format!("v{v}"));
            }
            Ok(Err(RecvError::Lagged)) => push(&obs, "lag".into()),
            Ok(Err(RecvError::Closed)) => {
                push(&obs, "closed".into());
                return;
            }
            Ok(Err(e)) => {
                push(&obs, format!("err:{e:?}").chars().take(40).collect());
                if e.is_final() {
                    return;
                }
            }
            Err(_) => {
                push(&obs, "hang".into());
                return;
            }
        }
    }
}

impl Scenario for BcastScenario {
    fn id(&self) -> String {
        format!("c16/{self:?}")
    }

    fn start(&self, env: Env) -> (BoxFuture<'static, ()>, Judge) {
        let obs = shared(Obs::default());
        let p = self.clone();
        let o2 = obs.clone();
        let root = async move {
            env.explore(false);
            let link = LinkOpts { capacity: 2, deliver_cap: 2, eof_on_drop: false };
            let ab = base_pair::<Ship, Ship, (), ()>(&env, typed_cfg(), typed_cfg(), link).await;
            let ((mut a_tx, _a_rx, k1, k2), (_b_tx, mut b_rx, k3, k4)) = match ab {
                Ok(x) => x,
                Err(e) => {
                    o2.lock().unwrap().err = Some(e);
                    return;
                }
            };
            env.explore(true);
            let gate = Arc::new(tokio::sync::Notify::new());
            let patterns: BTreeMap<u8, Pattern> = p.subs.iter().enumerate().map(|(i, s)| (i as u8, s.pattern)).collect();
            let (o3, env3, gate3) = (o2.clone(), env.clone(), gate.clone());
            let b_task = env.spawn("B.recv", 2, async move {
                let mut hs = Vec::new();
                while let Ok(Some(ship)) = b_rx.recv().await {
                    let (id, rx) = match ship {
                        Ship::R1(id, r) => (id, AnyRx::R1(r)),
                        Ship::R2(id, r) => (id, AnyRx::R2(r)),
                    };
                    hs.push(env3.spawn(&format!("sub{id}-remote"), 2, consume(id, rx, patterns[&id], o3.clone(), gate3.clone())));
                }
                for h in hs {
                    let _ = h.await;
                }
            });
            let tx = broadcast::Sender::<u32, C>::new();
            let feeder = if p.via_feeder { Some(tx.feeder::<2>()) } else { None };
            let mut local = Vec::new();
            for v in 0..=p.n {
                for (i, s) in p.subs.iter().enumerate() {
                    if s.join_after == v {
                        let id = i as u8;
                        let rx = if s.recv_buffer == 1 { AnyRx::R1(tx.subscribe::<1>(s.send_buffer)) } else { AnyRx::R2(tx.subscribe::<2>(s.send_buffer)) };
                        if s.remote {
                            let ship = match rx {
                                AnyRx::R1(r) => Ship::R1(id, r),
                                AnyRx::R2(r) => Ship::R2(id, r),
                            };
                            if a_tx.send(ship).await.is_err() {
                                o2.lock().unwrap().err = Some("ship".into());
                            }
                            // let the remote subscriber connect before the next value
                            env.quiesce().await;
                        } else {
                            local.push(env.spawn(&format!("sub{id}-local"), 1, consume(id, rx, s.pattern, o2.clone(), gate.clone())));
                        }
                    }
                }
                if v < p.n {
                    if let Some(f) = &feeder {
                        // the feeder task broadcasts on behalf of the caller; a slow subscriber must not stop it
                        let r = f.send(v + 1).await;
                        o2.lock().unwrap().send_results.push(match r {
                            Ok(_) => "ok".into(),
                            Err(e) => format!("err:feed:{:?}", e.without_item()),
                        });
                        for _ in 0..8 {
                            yield_once().await;
                        }
                    } else {
                    // send is synchronous: it can never wait for a slow subscriber
                    let r = tx.send(v + 1);
                    o2.lock().unwrap().send_results.push(match r {
                        Ok(_) => "ok".into(),
                        Err(e) => format!("err:{:?}", e.without_item()),
                    });
                    }
                    if p.paced {
                        env.quiesce().await;
                    }
                }
            }
            env.quiesce().await;
            o2.lock().unwrap().burst_done = true;
            // release stalled subscribers, then end the channel (or the other way round)
            drop(feeder);
            let mut tx = Some(tx);
            if p.drop_first {
                drop(tx.take());
                env.quiesce().await;
            }
            gate.notify_waiters();
            env.quiesce().await;
            drop(tx);
            drop(a_tx);
            env.quiesce().await;
            gate.notify_waiters();
            // "never" subscribers are released at the very end
            o2.lock().unwrap().end_done = true;
            for _ in 0..4 {
                env.quiesce().await;
                gate.notify_waiters();
            }
            for l in local {
                let _ = l.await;
            }
            let _ = b_task.await;
            env.explore(false);
            drop((k1, k2, k3, k4));
        };
        let p = self.clone();
        let judge: Judge = Box::new(move |out: &Outcome| {
            let o = obs.lock().unwrap();
            let mut v = Verdict::default();
            v.findings.extend(panic_findings(out, "C16"));
            if let Some(e) = &o.err {
                v.fail("C16", "setup-failed", e.clone());
            } else if out.ending != Ending::Completed {
                v.fail("C16", "broadcast-scenario-stuck", format!("{:?}: {:?}", out.ending, o.events));
            } else {
                if o.send_results.iter().any(|r| r != "ok") && p.subs.iter().all(|s| !matches!(s.pattern, Pattern::LeaveAfter(_))) {
                    v.fail("C16", "send-failed", format!("{:?}", o.send_results));
                }
                for (i, s) in p.subs.iter().enumerate() {
                    let id = i as u8;
                    let ev = o.events.get(&id).cloned().unwrap_or_default();
                    if ev.iter().any(|e| e == "hang") {
                        v.fail("C16", format!("subscriber-hangs:sb{}", s.send_buffer), format!("subscriber {id} ({s:?}) never saw the end of the channel: {ev:?}"));
                        continue;
                    }
                    if ev.iter().any(|e| e.starts_with("err")) {
                        v.fail("C16", "subscriber-error", format!("subscriber {id}: {ev:?}"));
                        continue;
                    }
                    // order, duplicates, lag markers exactly at gaps
                    let first_possible = s.join_after + 1;
                    let mut prev: Option<u32> = None;
                    let mut lag_pending = false;
                    for e in &ev {
                        if e == "lag" {
                            if lag_pending {
                                v.fail("C16", "double-lag-marker", format!("subscriber {id}: {ev:?}"));
                            }
                            lag_pending = true;
                        } else if let Some(x) = e.strip_prefix('v') {
                            let x: u32 = x.parse().unwrap_or(0);
                            let expected_next = prev.map(|p| p + 1).unwrap_or(first_possible);
                            if let Some(p0) = prev {
                                if x <= p0 {
                                    v.fail("C16", "duplicate-or-reordered", format!("subscriber {id}: {ev:?}"));
                                }
                            }
                            if x < first_possible {
                                v.fail("C16", "value-from-before-subscription", format!("subscriber {id} joined after {} but got {x}: {ev:?}", s.join_after));
                            }
                            let gap = x > expected_next;
                            if gap && !lag_pending {
                                v.fail("C16", "gap-without-lag-marker", format!("subscriber {id} ({s:?}): {ev:?}"));
                            }
                            if !gap && lag_pending && prev.is_some() {
                                v.fail("C16", "lag-marker-without-gap", format!("subscriber {id} ({s:?}): {ev:?}"));
                            }
                            lag_pending = false;
                            prev = Some(x);
                        }
                    }
                    // values skipped at the very end need their marker too: "closed" right after a value that is not the last one sent
                    if !matches!(s.pattern, Pattern::LeaveAfter(_)) && ev.last().map(|e| e.as_str()) == Some("closed") {
                        let last_val = prev.unwrap_or(first_possible - 1);
                        let lag_before_closed = ev.len() >= 2 && ev[ev.len() - 2] == "lag";
                        if last_val < p.n && !lag_before_closed {
                            v.fail("C16", "gap-at-end-without-lag-marker", format!("subscriber {id} ({s:?}) last got {last_val} of {} values and then Closed with no lag error in between: {ev:?}", p.n));
                        }
                        if last_val >= p.n && lag_before_closed {
                            v.fail("C16", "lag-marker-without-gap", format!("subscriber {id} ({s:?}): {ev:?}"));
                        }
                    }
                    // a subscriber that keeps up (paced sender) receives everything after its subscription
                    if s.pattern == Pattern::KeepUp && p.paced {
                        let vals: Vec<u32> = ev.iter().filter_map(|e| e.strip_prefix('v').and_then(|x| x.parse().ok())).collect();
                        let expect: Vec<u32> = (first_possible..=p.n).collect();
                        if vals != expect {
                            v.fail("C16", "keeping-up-subscriber-missed-values", format!("subscriber {id} ({s:?}) got {vals:?}, expected {expect:?} (others: {:?})", p.subs));
                        }
                    }
                    if !matches!(s.pattern, Pattern::LeaveAfter(_)) && ev.last().map(|e| e.as_str()) != Some("closed") {
                        v.fail("C16", "no-closed-at-end", format!("subscriber {id}: {ev:?}"));
                    }
                }
            }
            v.outcome = format!("{:?}|{:?}", o.events, out.ending);
            v.nontrivial = o.events.values().any(|e| e.iter().any(|x| x == "lag"));
            v
        });
        (Box::pin(root), judge)
    }
}

pub fn grid(tier: Tier) -> Vec<Arc<dyn Scenario>> {
    let mut out: Vec<Arc<dyn Scenario>> = Vec::new();
    let ns: &[u32] = if tier == Tier::Quick { &[4] } else { &[3, 6] };
    let patterns = [Pattern::KeepUp, Pattern::StallAfter(0), Pattern::StallAfter(1), Pattern::Never, Pattern::LeaveAfter(1)];
    for &n in ns {
        for sb in [1usize, 2] {
            for rb in [1usize, 2] {
                for pat in patterns {
                    for remote in [false, true] {
                        for join_after in [0u32, 2] {
                            for paced in [true, false] {
                                let slow = Sub { remote, send_buffer: sb, recv_buffer: rb, pattern: pat, join_after };
                                let fast = Sub { remote: !remote, send_buffer: 2, recv_buffer: 2, pattern: Pattern::KeepUp, join_after: 0 };
                                out.push(Arc::new(BcastScenario { n, subs: vec![fast.clone(), slow.clone()], paced, drop_first: false, via_feeder: false }));
                                if !matches!(pat, Pattern::KeepUp | Pattern::LeaveAfter(_)) {
                                    out.push(Arc::new(BcastScenario { n, subs: vec![fast.clone(), slow.clone()], paced, drop_first: true, via_feeder: false }));
                                }
                                if tier == Tier::Thorough {
                                    let third = Sub { remote, send_buffer: 1, recv_buffer: 1, pattern: Pattern::StallAfter(2), join_after: 1 };
                                    out.push(Arc::new(BcastScenario { n, subs: vec![fast, slow, third], paced, drop_first: false, via_feeder: false }));
                                }
                            }
                        }
                    }
                }
            }
        }
    }
    // values fed through Sender::feeder(): a subscriber that is merely slow must not disconnect the feeder
    for sb in [1usize, 2] {
        for pat in [Pattern::StallAfter(0), Pattern::StallAfter(1), Pattern::Never, Pattern::KeepUp] {
            for remote in [false, true] {
                let slow = Sub { remote, send_buffer: sb, recv_buffer: 1, pattern: pat, join_after: 0 };
                let fast = Sub { remote: !remote, send_buffer: 2, recv_buffer: 2, pattern: Pattern::KeepUp, join_after: 0 };
                out.push(Arc::new(BcastScenario { n: 4, subs: vec![slow.clone()], paced: true, drop_first: false, via_feeder: true }));
                out.push(Arc::new(BcastScenario { n: 4, subs: vec![fast, slow], paced: true, drop_first: false, via_feeder: true }));
            }
        }
    }
    out
}

pub fn core(_tier: Tier) -> Vec<Arc<dyn Scenario>> {
    let fast = Sub { remote: true, send_buffer: 2, recv_buffer: 2, pattern: Pattern::KeepUp, join_after: 0 };
    vec![
        Arc::new(BcastScenario { n: 3, subs: vec![fast.clone(), Sub { remote: false, send_buffer: 1, recv_buffer: 1, pattern: Pattern::StallAfter(1), join_after: 0 }], paced: false, drop_first: false, via_feeder: false }),
        Arc::new(BcastScenario { n: 3, subs: vec![fast.clone(), Sub { remote: true, send_buffer: 1, recv_buffer: 1, pattern: Pattern::StallAfter(0), join_after: 1 }], paced: true, drop_first: false, via_feeder: false }),
        Arc::new(BcastScenario { n: 4, subs: vec![fast, Sub { remote: false, send_buffer: 2, recv_buffer: 1, pattern: Pattern::Never, join_after: 0 }], paced: true, drop_first: true, via_feeder: false }),
    ]
}

pub fn all_scenarios(tier: Tier) -> Vec<Arc<dyn Scenario>> {
    let mut v = grid(tier);
    v.extend(core(tier));
    v
}

pub fn run(tier: Tier, seed: u64) -> i32 {
    let mut rep = Report::new("C16", tier, seed);
    let known = known_sigs("C16");
    let q = tier == Tier::Quick;
    let p0 = Params { max_dev: if q { 0 } else { 1 }, seeds: vec![seed, seed + 1], time_limit: Duration::from_secs(if q { 20 } else { 600 }), ..Default::default() };
    rep.add("burst x send/receive buffer sizes x consumption pattern x local/remote x join point x pacing", explore("C16", grid(tier), p0, &known));
    let p = Params { max_dev: if q { 2 } else { 3 }, seeds: vec![seed], time_limit: Duration::from_secs(if q { 25 } else { 900 }), ..Default::default() };
    rep.add("core scenarios under schedule exploration", explore("C16", core(tier), p, &known));
    rep.rule = "a case = (burst length, per subscriber: local/remote, send buffer 1|2, receive buffer 1|2, consumption pattern keep-up / stall after j / never / leave after j, join point, paced or burst sender, schedule deviations); distinct = distinct per-subscriber event logs; non-trivial = at least one lag marker was produced".into();
    rep.assumptions = vec!["'keeps up' is defined operationally: the subscriber consumes continuously and the sender waits for quiescence between sends".into()];
    rep.finish()
}
