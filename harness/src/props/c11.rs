//! C11 Close and drop reach the other half, correctly classified, losing no sent data (ports).

use futures::future::BoxFuture;
use remoc::chmux::{self, Cfg, Received, SendError};
use std::{sync::Arc, time::Duration};

use crate::{
    explore::{Params, explore},
    net::LinkOpts,
    report::{Report, Tier, known_sigs},
    util::{Cancelled, cancel_at, hex, ledger_findings, panic_findings, payload, shared},
    world::{Ending, Env, Judge, Outcome, Scenario, Verdict, cfg},
};

#[derive(Debug, Clone, Copy, PartialEq, Eq)]
pub enum Event {
    /// Receiver calls close() after k receive events, keeps receiving.
    Close,
    /// Receiver is dropped after k receive events.
    DropReceiver,
    /// Sender is dropped after k messages (k-th message abandoned mid-way if `mid`).
    DropSender { mid: bool },
    /// close() is started while the receiver side's send queue is full, dropped, then called again.
    CloseCancelledThenClose,
}

#[derive(Default)]
struct Obs {
    ok_sends: Vec<Vec<u8>>,
    send_err: Option<String>,
    extra_err: Option<String>,
    /// result of a try_send issued once the close / drop was observable
    try_err: Option<String>,
    closed_resolved: bool,
    is_closed_flag: Option<bool>,
    received: Vec<Vec<u8>>,
    recv_events: Vec<String>,
    recv_end: Option<String>,
    err: Option<String>,
    event_done: bool,
    close_was_cancelled: bool,
}

pub struct PortCloseScenario {
    pub event: Event,
    pub after: usize,
    pub cfg_a: Cfg,
    pub cfg_b: Cfg,
    pub sizes: Vec<usize>,
}

impl Scenario for PortCloseScenario {
    fn id(&self) -> String {
        format!(
            "c11/{:?}@{}/{:?}/a={},{}/b={},{},{}",
            self.event, self.after, self.sizes, self.cfg_a.chunk_size, self.cfg_a.receive_buffer, self.cfg_b.chunk_size, self.cfg_b.receive_buffer, self.cfg_b.max_data_size
        )
    }

    fn start(&self, env: Env) -> (BoxFuture<'static, ()>, Judge) {
        let obs = shared(Obs::default());
        let (event, after, cfg_a, cfg_b, sizes) = (self.event, self.after, self.cfg_a.clone(), self.cfg_b.clone(), self.sizes.clone());
        let max_ports = [cfg_a.max_ports, cfg_b.max_ports];
        let o2 = obs.clone();
        let root = async move {
            env.explore(false);
            let link = LinkOpts { capacity: 1, deliver_cap: 1, eof_on_drop: false };
            let Ok(((ca, la), (cb, mut lb))) = env.pair(cfg_a, cfg_b, link, &[]).await else {
                o2.lock().unwrap().err = Some("pair".into());
                return;
            };
            let (c, a) = tokio::join!(ca.connect(), lb.accept());
            let (Ok((mut tx, rx_a)), Ok(Some((mut tx_b, mut rx)))) = (c, a) else {
                o2.lock().unwrap().err = Some("port".into());
                return;
            };
            env.explore(true);
            let o3 = o2.clone();
            let sizes2 = sizes.clone();
            let sender = env.spawn("sender", 1, async move {
                let n = sizes2.len();
                for (i, sz) in sizes2.iter().enumerate() {
                    if let Event::DropSender { mid } = event {
                        if i == after {
                            if mid {
                                // abandon a chunked message half-way
                                let data = payload(i, *sz);
                                let half = sz / 2;
                                if let Ok(cs) = tx.send_chunks().send(data.slice(0..half)).await {
                                    drop(cs);
                                }
                            }
                            o3.lock().unwrap().event_done = true;
                            drop(tx);
                            return None;
                        }
                    }
                    let data = payload(i, *sz);
                    match tx.send(data.clone()).await {
                        Ok(()) => o3.lock().unwrap().ok_sends.push(data.to_vec()),
                        Err(e) => {
                            {
                                let mut o = o3.lock().unwrap();
                                o.send_err = Some(classify(&e));
                                o.is_closed_flag = Some(tx.is_closed());
                            }
                            tx.closed().await;
                            o3.lock().unwrap().closed_resolved = true;
                            drop(tx);
                            return None;
                        }
                    }
                }
                if matches!(event, Event::DropSender { .. }) {
                    // after == n: drop after everything was sent
                    o3.lock().unwrap().event_done = true;
                    drop(tx);
                    return None;
                }
                let _ = n;
                // All sent: wait for the close/drop to become observable, then a later send must fail.
                tx.closed().await;
                {
                    let mut o = o3.lock().unwrap();
                    o.closed_resolved = true;
                    o.is_closed_flag = Some(tx.is_closed());
                }
                // the non-waiting variant first: it must be refused as well, with the same classification
                match tx.try_send(&payload(98, 1)) {
                    Ok(()) => o3.lock().unwrap().try_err = Some("ok".into()),
                    Err(chmux::TrySendError::Full) => o3.lock().unwrap().try_err = Some("full".into()),
                    Err(chmux::TrySendError::Send(e)) => o3.lock().unwrap().try_err = Some(classify(&e)),
                }
                match tx.send(payload(99, 1)).await {
                    Ok(()) => o3.lock().unwrap().extra_err = Some("ok".into()),
                    Err(e) => o3.lock().unwrap().extra_err = Some(classify(&e)),
                }
                drop(tx);
                None::<()>
            });
            let o4 = o2.clone();
            let env4 = env.clone();
            let n_msgs = sizes.len();
            let receiver = env.spawn("receiver", 2, async move {
                let mut events = 0usize;
                let mut rx = Some(rx);
                let mut acc: Option<Vec<u8>> = None;
                loop {
                    // a position beyond the last receive event means: after everything was received
                    let all_in = o4.lock().unwrap().received.len() >= n_msgs;
                    if (events == after || (all_in && events < after)) && !o4.lock().unwrap().event_done {
                        match event {
                            Event::Close => {
                                rx.as_mut().unwrap().close().await;
                                o4.lock().unwrap().event_done = true;
                            }
                            Event::CloseCancelledThenClose => {
                                // fill this side's send path, start close(), drop it, close again
                                env4.dir(0, 1).hold(true);
                                for _ in 0..12 {
                                    env4.quiesce().await;
                                    if tx_b.try_send(&payload(7, 1)).is_err() {
                                        break;
                                    }
                                }
                                let r = cancel_at(rx.as_mut().unwrap().close(), 1).await;
                                o4.lock().unwrap().close_was_cancelled = matches!(r, Cancelled::Cancelled(_));
                                env4.dir(0, 1).hold(false);
                                rx.as_mut().unwrap().close().await;
                                o4.lock().unwrap().event_done = true;
                            }
                            Event::DropReceiver => {
                                o4.lock().unwrap().event_done = true;
                                drop(rx.take());
                                o4.lock().unwrap().recv_end = Some("dropped".into());
                                return tx_b;
                            }
                            Event::DropSender { .. } => {}
                        }
                    }
                    let r = rx.as_mut().unwrap();
                    if acc.is_some() {
                        match r.recv_chunk().await {
                            Ok(Some(c)) => {
                                acc.as_mut().unwrap().extend_from_slice(&c);
                                events += 1;
                            }
                            Ok(None) => {
                                let m = acc.take().unwrap();
                                let mut o = o4.lock().unwrap();
                                o.recv_events.push(format!("chunked:{}", hex(&m)));
                                o.received.push(m);
                            }
                            Err(chmux::RecvChunkError::Cancelled) => {
                                o4.lock().unwrap().recv_events.push("chunks-cancelled".into());
                                acc = None;
                            }
                            Err(e) => {
                                o4.lock().unwrap().recv_end = Some(format!("err:{e:?}"));
                                return tx_b;
                            }
                        }
                        continue;
                    }
                    match r.recv_any().await {
                        Ok(Some(Received::Data(d))) => {
                            let m: Vec<u8> = d.into();
                            let mut o = o4.lock().unwrap();
                            o.recv_events.push(format!("data:{}", hex(&m)));
                            o.received.push(m);
                            events += 1;
                        }
                        Ok(Some(Received::Chunks)) => acc = Some(Vec::new()),
                        Ok(Some(Received::Requests(_))) => {}
                        Ok(None) => {
                            o4.lock().unwrap().recv_end = Some("eos".into());
                            return tx_b;
                        }
                        Err(e) => {
                            o4.lock().unwrap().recv_end = Some(format!("err:{e:?}"));
                            return tx_b;
                        }
                    }
                }
            });
            let _ = sender.await;
            let tx_b = receiver.await;
            env.explore(false);
            drop((ca, la, cb, lb, rx_a, tx_b));
            env.quiesce().await;
        };
        let judge: Judge = Box::new(move |out: &Outcome| {
            let o = obs.lock().unwrap();
            let mut v = Verdict::default();
            v.findings.extend(panic_findings(out, "C11"));
            let (_l, lf) = ledger_findings(out, 0, max_ports, [false, false]);
            v.findings.extend(lf);
            let sent: Vec<String> = o.ok_sends.iter().map(|m| hex(m)).collect();
            let got: Vec<String> = o.received.iter().map(|m| hex(m)).collect();
            if let Some(e) = &o.err {
                v.fail("C11", "setup-failed", e.clone());
            } else if out.ending != Ending::Completed {
                v.fail(
                    "C11",
                    format!("never-observable:{:?}", event),
                    format!("ending {:?}: event {:?}@{after} did not become observable: send_err {:?} closed_resolved {} recv_end {:?} sent {:?} got {:?}", out.ending, event, o.send_err, o.closed_resolved, o.recv_end, sent, got),
                );
            } else {
                match event {
                    Event::Close | Event::CloseCancelledThenClose => {
                        if o.received != o.ok_sends {
                            v.fail("C11", "sent-data-lost-on-close", format!("sends that returned Ok: {sent:?}; received after close: {got:?}; events {:?}", o.recv_events));
                        }
                        if o.recv_end.as_deref() != Some("eos") {
                            v.fail("C11", "no-eos-after-close", format!("{:?}", o.recv_end));
                        }
                        let cls = o.send_err.clone().or(o.extra_err.clone());
                        if cls.as_deref() != Some("closed-gracefully") {
                            v.fail("C11", "wrong-classification-on-close", format!("send after close() failed with {cls:?}, expected closed-gracefully"));
                        }
                        if let Some(t) = &o.try_err {
                            if t != "closed-gracefully" {
                                v.fail("C11", "try-send-after-close-not-refused", format!("try_send after the close was observable returned {t}, expected closed-gracefully"));
                            }
                        }
                        if !o.closed_resolved || o.is_closed_flag != Some(true) {
                            v.fail("C11", "close-not-observable", format!("closed() resolved {} is_closed {:?}", o.closed_resolved, o.is_closed_flag));
                        }
                    }
                    Event::DropReceiver => {
                        if !o.ok_sends.starts_with(&o.received) {
                            v.fail("C11", "received-not-prefix", format!("sent {sent:?} got {got:?}"));
                        }
                        let cls = o.send_err.clone().or(o.extra_err.clone());
                        if cls.as_deref() != Some("closed-dropped") {
                            v.fail("C11", "wrong-classification-on-drop", format!("send after receiver drop failed with {cls:?}, expected closed-dropped"));
                        }
                        if let Some(t) = &o.try_err {
                            if t != "closed-dropped" {
                                v.fail("C11", "try-send-after-drop-not-refused", format!("try_send after the receiver drop was observable returned {t}, expected closed-dropped"));
                            }
                        }
                        if !o.closed_resolved {
                            v.fail("C11", "drop-not-observable", "closed() did not resolve".to_string());
                        }
                    }
                    Event::DropSender { .. } => {
                        if o.received != o.ok_sends {
                            v.fail("C11", "eos-with-messages-missing", format!("sent {sent:?} then dropped the sender; receiver got {got:?} then {:?}; events {:?}", o.recv_end, o.recv_events));
                        }
                        if o.recv_end.as_deref() != Some("eos") {
                            v.fail("C11", "no-eos-after-sender-drop", format!("{:?}", o.recv_end));
                        }
                    }
                }
            }
            v.outcome = format!("{:?}|{:?}|{:?}|{:?}|{:?}|{:?}", sent.len(), o.send_err, o.extra_err, o.recv_events, o.recv_end, out.ending);
            v.nontrivial = o.event_done && !o.ok_sends.is_empty();
            v
        });
        (Box::pin(root), judge)
    }
}

fn classify(e: &SendError) -> String {
    match e {
        SendError::Closed { gracefully: true } => "closed-gracefully".into(),
        SendError::Closed { gracefully: false } => "closed-dropped".into(),
        SendError::ChMux => "failed".into(),
    }
}

fn mk(event: Event, after: usize, a: &Cfg, b: &Cfg, sizes: &[usize]) -> Arc<dyn Scenario> {
    Arc::new(PortCloseScenario { event, after, cfg_a: a.clone(), cfg_b: b.clone(), sizes: sizes.to_vec() })
}

pub fn grid(tier: Tier) -> Vec<Arc<dyn Scenario>> {
    let mut out = Vec::new();
    let cfgs = [(cfg(8, 16, 16, 1, 1), cfg(4, 8, 8, 1, 1)), (cfg(4, 8, 8, 2, 2), cfg(8, 32, 16, 2, 2))];
    let n = if tier == Tier::Quick { 1 } else { 2 };
    for (a, b) in cfgs.iter().take(n) {
        let mds = b.max_data_size;
        let sizes = [2usize, mds + b.chunk_size as usize + 1, 0, 3];
        // receive events: 1 + chunks of message 1 + 1 + 1
        let chunks = sizes[1].div_ceil(b.chunk_size as usize);
        for k in 0..=(3 + chunks + 1) {
            out.push(mk(Event::Close, k, a, b, &sizes));
            out.push(mk(Event::DropReceiver, k, a, b, &sizes));
            out.push(mk(Event::CloseCancelledThenClose, k, a, b, &sizes));
        }
        for k in 0..=4 {
            out.push(mk(Event::DropSender { mid: false }, k, a, b, &sizes));
            out.push(mk(Event::DropSender { mid: true }, k, a, b, &sizes));
        }
    }
    out
}

pub fn all_scenarios(tier: Tier) -> Vec<Arc<dyn Scenario>> {
    let mut v = grid(tier);
    v.extend(super::c11t::grid(tier));
    v.extend(super::c11t::core(tier));
    v
}

pub fn run(tier: Tier, seed: u64) -> i32 {
    let mut rep = Report::new("C11", tier, seed);
    let known = known_sigs("C11");
    let q = tier == Tier::Quick;
    let p = Params { max_dev: if q { 2 } else { 3 }, seeds: vec![seed, seed + 1], time_limit: Duration::from_secs(if q { 25 } else { 900 }), ..Default::default() };
    rep.add("ports: close / receiver drop / sender drop / cancelled close at every position of a 4-message stream (one chunked)", explore("C11", grid(tier), p, &known));
    let p0 = Params { max_dev: 0, seeds: vec![seed], time_limit: Duration::from_secs(if q { 15 } else { 300 }), ..Default::default() };
    rep.add("typed channels (base, mpsc with remote sender / remote receiver / local+remote / two remote senders, lr either half remote, oneshot, bin): receiver close / receiver drop / sender drop / connection cut after 0..4 values, settled and racing", explore("C11", super::c11t::grid(tier), p0, &known));
    let p1 = Params { max_dev: if q { 1 } else { 2 }, seeds: vec![seed], time_limit: Duration::from_secs(if q { 15 } else { 900 }), ..Default::default() };
    rep.add("typed channels: delivery schedules of racing close / drop", explore("C11", super::c11t::core(tier), p1, &known));
    rep.rule = "a case = (channel kind and which half is remote, event kind, position within the stream, settled or racing, cfg pair, schedule deviations); distinct = distinct (per-sender send results and Sending-handle results, error classification, receiver log, ending); non-trivial = the event happened".into();
    rep.assumptions = vec![
        "typed channels: a Sending handle that resolved Ok (or, for channels without handles, a send that returned Ok) counts as a completed transmission".into(),
        "select! fairness fixed per seed".into(),
    ];
    rep.finish()
}
