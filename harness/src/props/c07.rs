//! C07 Orderly shutdown and reclamation of ports and tasks.

use futures::future::BoxFuture;
use remoc::chmux::{self, Cfg, PortAllocator};
use std::{sync::Arc, time::Duration};

use crate::{
    explore::{Params, explore},
    net::LinkOpts,
    report::{Report, Tier, known_sigs},
    util::{ledger_findings, panic_findings, payload, shared, yield_once},
    world::{Ending, Env, Judge, Outcome, Scenario, Verdict, cfg},
};

#[derive(Debug, Clone, Copy, PartialEq, Eq)]
pub enum H {
    ATx(u8),
    ARx(u8),
    BTx(u8),
    BRx(u8),
    AClient,
    AListener,
    BClient,
    BListener,
    /// A's connect future that B never answers (request sits un-inspected in B's listener).
    PendingConnect,
    /// Request that B inspected but has neither accepted nor rejected.
    HeldRequest,
}

#[derive(Debug, Clone, Copy, PartialEq, Eq)]
pub enum Gap {
    /// Drops follow each other with a single yield in between.
    Yield,
    /// Everything settles between two drops.
    Quiesce,
}

pub struct DropScenario {
    pub ports: u8,
    pub extras: bool,
    pub order: Vec<H>,
    pub gap: Gap,
    pub max_ports: u32,
    pub connect_queue: u16,
    pub cycles_before: u8,
    /// The held request's accept was started while the send queue was full and is still parked there.
    pub close_rx: bool,
    accept_parked: bool,
}

#[derive(Default)]
struct Obs {
    err: Option<String>,
    free_a: Option<usize>,
    free_b: Option<usize>,
    live_after: Vec<String>,
    cycle_states: Vec<String>,
    transferred: usize,
    accept_was_parked: bool,
}

fn count_free(alloc: &PortAllocator) -> usize {
    let mut held = Vec::new();
    while let Some(p) = alloc.try_allocate() {
        held.push(p);
        if held.len() > 100_000 {
            break;
        }
    }
    held.len()
}

pub fn all_handles(ports: u8, extras: bool) -> Vec<H> {
    let mut v = Vec::new();
    for i in 0..ports {
        v.extend([H::ATx(i), H::ARx(i), H::BTx(i), H::BRx(i)]);
    }
    v.extend([H::AClient, H::AListener, H::BClient, H::BListener]);
    if extras {
        v.extend([H::PendingConnect, H::HeldRequest]);
    }
    v
}

/// k-th permutation (factorial number system).
pub fn permutation<T: Clone>(items: &[T], mut k: u64) -> Vec<T> {
    let mut pool: Vec<T> = items.to_vec();
    let mut out = Vec::new();
    let mut f: Vec<u64> = vec![1];
    for i in 1..items.len() as u64 {
        f.push(f[i as usize - 1] * i);
    }
    for i in (0..items.len()).rev() {
        let idx = (k / f[i]) as usize;
        k %= f[i];
        out.push(pool.remove(idx));
    }
    out
}

pub fn factorial(n: usize) -> u64 {
    (1..=n as u64).product()
}

struct Handles {
    atx: Vec<Option<chmux::Sender>>,
    arx: Vec<Option<chmux::Receiver>>,
    btx: Vec<Option<chmux::Sender>>,
    brx: Vec<Option<chmux::Receiver>>,
    acl: Option<chmux::Client>,
    ali: Option<chmux::Listener>,
    bcl: Option<chmux::Client>,
    bli: Option<chmux::Listener>,
    pending: Option<tokio::task::JoinHandle<Result<(chmux::Sender, chmux::Receiver), chmux::ConnectError>>>,
    held: Option<chmux::Request>,
    parked_accept: Option<std::pin::Pin<Box<dyn std::future::Future<Output = Result<(chmux::Sender, chmux::Receiver), chmux::ListenerError>> + Send>>>,
}

impl Handles {
    fn drop_one(&mut self, h: H) {
        match h {
            H::ATx(i) => drop(self.atx[i as usize].take()),
            H::ARx(i) => drop(self.arx[i as usize].take()),
            H::BTx(i) => drop(self.btx[i as usize].take()),
            H::BRx(i) => drop(self.brx[i as usize].take()),
            H::AClient => drop(self.acl.take()),
            H::AListener => drop(self.ali.take()),
            H::BClient => drop(self.bcl.take()),
            H::BListener => drop(self.bli.take()),
            H::PendingConnect => {
                if let Some(p) = self.pending.take() {
                    p.abort();
                }
            }
            H::HeldRequest => {
                drop(self.held.take());
                drop(self.parked_accept.take());
            }
        }
    }
}

/// Opens `n` ports from A to B and transfers one message each way on each.
async fn open_ports(env: &Env, h: &mut Handles, n: u8) -> Result<usize, String> {
    let mut transferred = 0;
    for i in 0..n {
        let ca = h.acl.clone().ok_or("no client")?;
        let conn = env.spawn("connect", 1, async move { ca.connect().await });
        let mut lb = h.bli.take().ok_or("no listener")?;
        let acc = env.spawn("accept", 2, async move {
            let r = lb.accept().await;
            (r, lb)
        });
        let (mut atx, mut arx) = conn.await.map_err(|e| format!("{e}"))?.map_err(|e| format!("connect: {e:?}"))?;
        let (r, lb) = acc.await.map_err(|e| format!("{e}"))?;
        h.bli = Some(lb);
        let (mut btx, mut brx) = r.map_err(|e| format!("accept: {e:?}"))?.ok_or("accept none")?;
        let m = payload(i as usize, 5);
        atx.send(m.clone()).await.map_err(|e| format!("{e:?}"))?;
        let got: bytes::Bytes = brx.recv().await.map_err(|e| format!("{e:?}"))?.ok_or("eos")?.into();
        if got != m {
            return Err("corrupt".into());
        }
        btx.send(m.clone()).await.map_err(|e| format!("{e:?}"))?;
        let got: bytes::Bytes = arx.recv().await.map_err(|e| format!("{e:?}"))?.ok_or("eos")?.into();
        if got != m {
            return Err("corrupt".into());
        }
        transferred += 2;
        h.atx.push(Some(atx));
        h.arx.push(Some(arx));
        h.btx.push(Some(btx));
        h.brx.push(Some(brx));
    }
    Ok(transferred)
}

impl Scenario for DropScenario {
    fn id(&self) -> String {
        format!(
            "c07/p{}/x{}{}{}/{:?}/mp{}/cq{}/cy{}/{}",
            self.ports,
            self.extras as u8,
            if self.accept_parked { "p" } else { "" },
            if self.close_rx { "/closerx" } else { "" },
            self.gap,
            self.max_ports,
            self.connect_queue,
            self.cycles_before,
            self.order.iter().map(|h| format!("{h:?}")).collect::<Vec<_>>().join(">")
        )
    }

    fn start(&self, env: Env) -> (BoxFuture<'static, ()>, Judge) {
        let obs = shared(Obs::default());
        let (ports, extras, order, gap, cycles) = (self.ports, self.extras, self.order.clone(), self.gap, self.cycles_before);
        let accept_parked = self.accept_parked;
        let close_rx = self.close_rx;
        let mk = |mp: u32, cq: u16| Cfg { max_ports: mp, connect_queue: cq, ..cfg(8, 16, 16, 2, 2) };
        let (cfg_a, cfg_b) = (mk(self.max_ports, self.connect_queue), mk(self.max_ports, self.connect_queue));
        let max_ports = [self.max_ports, self.max_ports];
        let o2 = obs.clone();
        let root = async move {
            env.explore(false);
            let link = LinkOpts { capacity: 2, deliver_cap: 2, eof_on_drop: false };
            let ((ca, la), (cb, lb)) = match env.pair(cfg_a, cfg_b, link, &[]).await {
                Ok(x) => x,
                Err(e) => {
                    o2.lock().unwrap().err = Some(e);
                    return;
                }
            };
            let (alloc_a, alloc_b) = (ca.port_allocator(), cb.port_allocator());
            let mut h = Handles {
                atx: vec![],
                arx: vec![],
                btx: vec![],
                brx: vec![],
                acl: Some(ca),
                ali: Some(la),
                bcl: Some(cb),
                bli: Some(lb),
                pending: None,
                held: None,
                parked_accept: None,
            };
            let state = |env: &Env, a: &PortAllocator, b: &PortAllocator| {
                let live: Vec<String> = env.ctl.live_tasks().into_iter().filter(|t| !t.2).map(|t| t.0).collect();
                format!("free={},{} live={:?}", count_free(a), count_free(b), live)
            };
            // Earlier open/transfer/close cycles (differential oracle on the state afterwards).
            o2.lock().unwrap().cycle_states.push(state(&env, &alloc_a, &alloc_b));
            for _ in 0..cycles {
                match open_ports(&env, &mut h, ports.max(1)).await {
                    Ok(n) => o2.lock().unwrap().transferred += n,
                    Err(e) => {
                        o2.lock().unwrap().err = Some(e);
                        return;
                    }
                }
                if close_rx {
                    for i in 0..h.arx.len() {
                        if let Some(rx) = h.arx[i].as_mut() {
                            rx.close().await;
                        }
                    }
                    for i in 0..h.brx.len() {
                        if let Some(rx) = h.brx[i].as_mut() {
                            rx.close().await;
                        }
                    }
                    env.quiesce().await;
                }
                h.atx.clear();
                h.arx.clear();
                h.btx.clear();
                h.brx.clear();
                env.quiesce().await;
                o2.lock().unwrap().cycle_states.push(state(&env, &alloc_a, &alloc_b));
            }
            match open_ports(&env, &mut h, ports).await {
                Ok(n) => o2.lock().unwrap().transferred += n,
                Err(e) => {
                    o2.lock().unwrap().err = Some(e);
                    return;
                }
            }
            if extras {
                // a request B inspects and holds, then a request that stays un-inspected
                let ca = h.acl.clone().unwrap();
                let c1 = env.spawn("connect-held", 1, async move { ca.connect().await });
                let mut lb = h.bli.take().unwrap();
                match lb.inspect().await {
                    Ok(Some(req)) => h.held = Some(req),
                    other => {
                        o2.lock().unwrap().err = Some(format!("inspect: {:?}", other.map(|o| o.is_some())));
                        return;
                    }
                }
                h.bli = Some(lb);
                drop(c1);
                let ca = h.acl.clone().unwrap();
                h.pending = Some(env.spawn("connect-pending", 1, async move { ca.connect().await }));
                env.quiesce().await;
                if accept_parked && ports > 0 {
                    // Fill B's send path, start accepting, leave the accept parked on the full queue.
                    env.dir(0, 1).hold(true);
                    let btx = h.btx[0].as_mut().unwrap();
                    for _ in 0..12 {
                        env.quiesce().await;
                        if btx.try_send(&payload(7, 1)).is_err() {
                            break;
                        }
                    }
                    let req = h.held.take().unwrap();
                    let mut fut: std::pin::Pin<Box<dyn std::future::Future<Output = _> + Send>> = Box::pin(req.accept());
                    let polled = std::future::poll_fn(|cx| std::task::Poll::Ready(fut.as_mut().poll(cx).is_pending())).await;
                    o2.lock().unwrap().accept_was_parked = polled;
                    h.parked_accept = Some(fut);
                    env.dir(0, 1).hold(false);
                }
            }
            env.explore(true);
            for hd in order {
                if close_rx {
                    // close() first, let the close reach the other endpoint, then drop
                    let rx = match hd {
                        H::ARx(i) => h.arx[i as usize].as_mut(),
                        H::BRx(i) => h.brx[i as usize].as_mut(),
                        _ => None,
                    };
                    if let Some(rx) = rx {
                        rx.close().await;
                        match gap {
                            Gap::Yield => yield_once().await,
                            Gap::Quiesce => env.quiesce().await,
                        }
                    }
                }
                h.drop_one(hd);
                match gap {
                    Gap::Yield => yield_once().await,
                    Gap::Quiesce => env.quiesce().await,
                }
            }
            drop(h);
            env.quiesce().await;
            env.explore(false);
            env.quiesce().await;
            let mut o = o2.lock().unwrap();
            o.free_a = Some(count_free(&alloc_a));
            o.free_b = Some(count_free(&alloc_b));
            o.live_after = env.ctl.live_tasks().into_iter().filter(|t| !t.2).map(|t| t.0).collect();
        };
        let judge: Judge = Box::new(move |out: &Outcome| {
            let o = obs.lock().unwrap();
            let mut v = Verdict::default();
            v.findings.extend(panic_findings(out, "C07"));
            let (l, lf) = ledger_findings(out, 0, max_ports, [false, false]);
            v.findings.extend(lf);
            if let Some(e) = &o.err {
                v.fail("C07", "setup-failed", e.clone());
            } else if out.ending != Ending::Completed {
                v.fail("C07", "shutdown-stuck", format!("ending {:?}", out.ending));
            } else {
                for name in ["A", "B"] {
                    match out.mux.get(name) {
                        Some((_, Ok(()))) => {}
                        Some((_, Err(e))) => v.fail("C07", "dispatcher-error-on-orderly-shutdown", format!("{name}: {e}")),
                        None => v.fail(
                            "C07",
                            "dispatcher-did-not-finish",
                            format!("{name} still running after all handles were dropped; live tasks {:?}; active ports A {:?} B {:?}", o.live_after, l.active_ports(0), l.active_ports(1)),
                        ),
                    }
                }
                if o.free_a != Some(max_ports[0] as usize) || o.free_b != Some(max_ports[1] as usize) {
                    v.fail(
                        "C07",
                        "port-numbers-not-reclaimed",
                        format!("free port numbers after shutdown: A {:?} B {:?}, max_ports {}", o.free_a, o.free_b, max_ports[0]),
                    );
                }
                if !o.live_after.is_empty() {
                    v.fail("C07", "tasks-left-behind", format!("remoc tasks still alive after shutdown: {:?}", o.live_after));
                }
                // Requests still unanswered when both sides said Goodbye are void; connected ports must be closed.
                if !l.open_ports(0).is_empty() || !l.open_ports(1).is_empty() {
                    v.fail("C07", "ports-left-open-on-wire", format!("A {:?} B {:?}", l.open_ports(0), l.open_ports(1)));
                }
                if let Some(first) = o.cycle_states.first() {
                    for (i, s) in o.cycle_states.iter().enumerate() {
                        if s != first {
                            v.fail("C07", "cycle-leaves-state-behind", format!("state after cycle {i}: {s}; initial: {first}"));
                            break;
                        }
                    }
                }
            }
            v.outcome = format!("{:?}|{:?}|{:?}|{:?}|reuse={}|parked={}", out.ending, out.mux, o.free_a, o.free_b, l.reuses, o.accept_was_parked);
            v.nontrivial = o.transferred > 0;
            v
        });
        (Box::pin(root), judge)
    }
}

fn mk(ports: u8, extras: bool, order: Vec<H>, gap: Gap, mp: u32, cq: u16, cycles: u8) -> Arc<dyn Scenario> {
    Arc::new(DropScenario { ports, extras, order, gap, max_ports: mp, connect_queue: cq, cycles_before: cycles, accept_parked: false, close_rx: false })
}

/// Like `mk`, but every receiver is closed (`Receiver::close`) and the close is let through before the receiver is dropped.
fn mk_close(ports: u8, order: Vec<H>, gap: Gap, mp: u32, cq: u16, cycles: u8) -> Arc<dyn Scenario> {
    Arc::new(DropScenario { ports, extras: false, order, gap, max_ports: mp, connect_queue: cq, cycles_before: cycles, accept_parked: false, close_rx: true })
}

fn mk_parked(order: Vec<H>, gap: Gap, mp: u32, cq: u16) -> Arc<dyn Scenario> {
    Arc::new(DropScenario { ports: 1, extras: true, order, gap, max_ports: mp, connect_queue: cq, cycles_before: 0, accept_parked: true, close_rx: false })
}

/// All permutations for one port without extras (8! = 40320) or a strided subset.
pub fn orders(tier: Tier) -> Vec<Arc<dyn Scenario>> {
    let mut out = Vec::new();
    let hs = all_handles(1, false);
    let n = factorial(hs.len());
    let stride = if tier == Tier::Quick { 7 } else { 1 };
    let mut k = 0;
    while k < n {
        out.push(mk(1, false, permutation(&hs, k), Gap::Yield, 2, 1, 0));
        k += stride;
    }
    // the same orders with every receiver closed before it is dropped (close then drop, on one or both endpoints)
    let stride = if tier == Tier::Quick { 13 } else { 1 };
    let mut k = 0;
    while k < n {
        out.push(mk_close(1, permutation(&hs, k), if k % 2 == 0 { Gap::Yield } else { Gap::Quiesce }, 2, 1, 0));
        k += stride;
    }
    // with extras (10 handles): strided sample of the 3.6M orders
    let hs = all_handles(1, true);
    let n = factorial(hs.len());
    let stride = if tier == Tier::Quick { 1009 } else { 53 };
    let mut k = 0;
    while k < n {
        out.push(mk(1, true, permutation(&hs, k), if k % 2 == 0 { Gap::Yield } else { Gap::Quiesce }, 3, 2, 0));
        k += stride;
    }
    // the held request's accept is parked on a full send queue when it is dropped
    let stride = if tier == Tier::Quick { 20011 } else { 499 };
    let mut k = 0;
    while k < n {
        out.push(mk_parked(permutation(&hs, k), if k % 2 == 0 { Gap::Yield } else { Gap::Quiesce }, 4, 2));
        k += stride;
    }
    // two ports, kinds only: A side first, B side first, interleaved
    let hs = all_handles(2, false);
    let n = factorial(hs.len());
    let stride = if tier == Tier::Quick { 100_003 } else { 4001 };
    let mut k = 0;
    while k < n {
        out.push(mk(2, false, permutation(&hs, k), Gap::Yield, 2, 2, 0));
        k += stride;
    }
    out
}

pub fn core(tier: Tier) -> Vec<Arc<dyn Scenario>> {
    let mut out = Vec::new();
    let hs = all_handles(1, true);
    let n = factorial(hs.len());
    let picks = if tier == Tier::Quick { 12 } else { 60 };
    for i in 0..picks {
        let k = (i as u64 * 2_654_435_761) % n;
        out.push(mk(1, true, permutation(&hs, k), Gap::Yield, if i % 2 == 0 { 3 } else { 4 }, 1 + (i % 2) as u16, 0));
    }
    // cycles
    let hs = all_handles(2, false);
    for c in 0..3u8 {
        out.push(mk(2, false, hs.clone(), Gap::Yield, 2, 1, c));
        let mut r = hs.clone();
        r.reverse();
        out.push(mk(2, false, r, Gap::Quiesce, 3, 2, c));
        out.push(mk_close(2, hs.clone(), Gap::Yield, 2, 1, c));
    }
    out
}

pub fn all_scenarios(tier: Tier) -> Vec<Arc<dyn Scenario>> {
    let mut v = orders(tier);
    v.extend(core(tier));
    v
}

pub fn run(tier: Tier, seed: u64) -> i32 {
    let mut rep = Report::new("C07", tier, seed);
    let known = known_sigs("C07");
    let q = tier == Tier::Quick;
    let p0 = Params { max_dev: 0, seeds: vec![seed], time_limit: Duration::from_secs(if q { 25 } else { 600 }), ..Default::default() };
    rep.add("drop orders (permutations) at d=0", explore("C07", orders(tier), p0, &known));
    let p = Params { max_dev: 2, seeds: vec![seed, seed + 1], time_limit: Duration::from_secs(if q { 20 } else { 600 }), ..Default::default() };
    rep.add("selected drop orders and open/close cycles under schedule exploration", explore("C07", core(tier), p, &known));
    rep.rule = "a case = (ports, pending/held requests, permutation of the drop operations over both endpoints, gap mode, max_ports/connect_queue, earlier cycles, schedule deviations); distinct = distinct (ending, dispatcher results, free port counts, reuse count); non-trivial = data was transferred on the ports before the shutdown".into();
    rep.assumptions = vec![
        "the links stay open (no EOF is delivered when a dispatcher ends): dispatchers must finish on their own".into(),
        "unbounded repetition is argued by state equality after 0,1,2 earlier cycles (free port numbers, live remoc tasks)".into(),
        "hook H2 hands out the smallest free port number, so numbers are re-used immediately".into(),
    ];
    rep.finish()
}
