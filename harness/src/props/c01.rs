//! C01 Port delivery: exactly-once, in-order, byte-exact, cancel-atomic messages.

use futures::future::BoxFuture;
use remoc::chmux::{self, Cfg, Received};
use std::{sync::Arc, time::Duration};

use crate::{
    explore::{Params, explore},
    net::LinkOpts,
    report::{Report, Tier, known_sigs},
    util::{Cancelled, Shared, cancel_at, hex, ledger_findings, panic_findings, payload, shared},
    world::{Env, Judge, Outcome, Scenario, Verdict, cfg},
};

#[derive(Debug, Clone, PartialEq, Eq)]
pub enum End {
    /// `finish()` after the chunks.
    Finish,
    /// Last chunk sent with `send_final`.
    Final,
    /// Chunk sender dropped without finishing.
    Abandon,
}

#[derive(Debug, Clone, PartialEq, Eq)]
pub enum Op {
    Send(usize),
    TrySend(usize),
    Chunks(Vec<usize>, End),
    /// `send(n)` dropped at its p-th poll.
    CancelSend(usize, u32),
    /// Chunked send whose k-th chunk send is dropped at its p-th poll.
    CancelChunk(Vec<usize>, usize, u32),
    /// Hold back / release the frames in flight towards the receiver (sink back-pressure).
    Hold,
    Release,
    /// Same for the direction back to the sender (credits, port answers).
    HoldRev,
    ReleaseRev,
    /// Wait until nothing is runnable.
    Quiesce,
    /// The peer endpoint sends an n-byte message in the opposite direction of the port.
    PeerSend(usize),
    /// Send k port-open requests over the port.
    Connect(usize, bool),
    /// Same, dropped at its p-th poll.
    CancelConnect(usize, u32),
}

impl Op {
    fn short(&self) -> String {
        match self {
            Op::Send(n) => format!("s{n}"),
            Op::TrySend(n) => format!("t{n}"),
            Op::Chunks(v, e) => format!(
                "c{}{}",
                v.iter().map(|x| x.to_string()).collect::<Vec<_>>().join("+"),
                match e {
                    End::Finish => "f",
                    End::Final => "F",
                    End::Abandon => "a",
                }
            ),
            Op::CancelSend(n, p) => format!("xs{n}@{p}"),
            Op::CancelChunk(v, k, p) => {
                format!("xc{}#{k}@{p}", v.iter().map(|x| x.to_string()).collect::<Vec<_>>().join("+"))
            }
            Op::Hold => "H".into(),
            Op::Release => "R".into(),
            Op::HoldRev => "Hr".into(),
            Op::ReleaseRev => "Rr".into(),
            Op::Quiesce => "Q".into(),
            Op::PeerSend(n) => format!("ps{n}"),
            Op::Connect(k, w) => format!("p{k}{}", if *w { "w" } else { "" }),
            Op::CancelConnect(k, p) => format!("xp{k}@{p}"),
        }
    }
}

#[derive(Default)]
pub struct Obs {
    /// Messages whose send completed with Ok.
    pub completed: Vec<Vec<u8>>,
    /// Op results in order.
    pub results: Vec<String>,
    /// Messages obtained by the receiver.
    pub received: Vec<Vec<u8>>,
    /// Received count at quiescence with the sender still alive.
    pub received_at_quiescence: Option<usize>,
    pub recv_events: Vec<String>,
    pub recv_end: Option<String>,
    pub sender_done: bool,
    pub cancel_landed: bool,
    pub multi_chunk: bool,
    pub setup_err: Option<String>,
    pub connects_sent: usize,
    pub requests_received: usize,
    pub recv_cancels: usize,
    pub peer: Option<tokio::sync::mpsc::UnboundedSender<(usize, tokio::sync::oneshot::Sender<bool>)>>,
}

/// How the receiver continues after `recv_chunk` reported `Cancelled`.
#[derive(Debug, Clone, Copy, PartialEq, Eq)]
pub enum RecvStyle {
    /// Go back to `recv_any` (what `rch::base::Receiver` and `chmux::forward` do).
    AnyAfterCancel,
    /// Use `recv()` only (whole messages; `ExceedsMaxDataSize` for big ones is skipped by the script).
    RecvOnly,
    /// Like `AnyAfterCancel`, but every `recv_any` call is dropped at its p-th poll (or at
    /// quiescence) and then issued again, as `select!` loops such as `chmux::forward` do.
    CancelEach(u32),
}

pub struct PortScenario {
    pub cfg_a: Cfg,
    pub cfg_b: Cfg,
    pub script: Vec<Op>,
    pub style: RecvStyle,
    pub link: LinkOpts,
    pub explore_setup: bool,
}

impl PortScenario {
    fn label(&self) -> String {
        format!(
            "c01/{}/a={},{},{},{},{}/b={},{},{},{},{}/{:?}/l{}",
            self.script.iter().map(|o| o.short()).collect::<Vec<_>>().join(","),
            self.cfg_a.chunk_size,
            self.cfg_a.receive_buffer,
            self.cfg_a.max_data_size,
            self.cfg_a.shared_send_queue,
            self.cfg_a.transport_send_queue,
            self.cfg_b.chunk_size,
            self.cfg_b.receive_buffer,
            self.cfg_b.max_data_size,
            self.cfg_b.shared_send_queue,
            self.cfg_b.transport_send_queue,
            self.style,
            self.link.capacity,
        )
    }
}

pub async fn run_script(env: &Env, tx: &mut chmux::Sender, script: &[Op], obs: &Shared<Obs>) {
    for (i, op) in script.iter().enumerate() {
        match op {
            Op::Send(n) => {
                let data = payload(i, *n);
                let r = tx.send(data.clone()).await;
                let mut o = obs.lock().unwrap();
                match r {
                    Ok(()) => {
                        o.completed.push(data.to_vec());
                        o.results.push("ok".into());
                    }
                    Err(e) => o.results.push(format!("err:{e:?}")),
                }
            }
            Op::TrySend(n) => {
                let data = payload(i, *n);
                let r = tx.try_send(&data);
                let mut o = obs.lock().unwrap();
                match r {
                    Ok(()) => {
                        o.completed.push(data.to_vec());
                        o.results.push("ok".into());
                    }
                    Err(e) => o.results.push(format!("tryerr:{e:?}")),
                }
            }
            Op::Chunks(parts, end) => {
                let total: usize = parts.iter().sum();
                let data = payload(i, total);
                let res: Result<bool, chmux::SendError> = async {
                    let mut cs = tx.send_chunks();
                    let mut off = 0;
                    for (k, p) in parts.iter().enumerate() {
                        let chunk = data.slice(off..off + p);
                        off += p;
                        if *end == End::Final && k + 1 == parts.len() {
                            cs.send_final(chunk).await?;
                            return Ok(true);
                        }
                        cs = cs.send(chunk).await?;
                    }
                    match end {
                        End::Abandon => {
                            drop(cs);
                            Ok(false)
                        }
                        _ => {
                            cs.finish().await?;
                            Ok(true)
                        }
                    }
                }
                .await;
                let mut o = obs.lock().unwrap();
                match res {
                    Ok(true) => {
                        o.completed.push(data.to_vec());
                        o.results.push("ok".into());
                    }
                    Ok(false) => o.results.push("abandoned".into()),
                    Err(e) => o.results.push(format!("err:{e:?}")),
                }
            }
            Op::Hold => env.dir(0, 0).hold(true),
            Op::Release => env.dir(0, 0).hold(false),
            Op::HoldRev => env.dir(0, 1).hold(true),
            Op::ReleaseRev => env.dir(0, 1).hold(false),
            Op::Quiesce => env.quiesce().await,
            Op::PeerSend(n) => {
                let peer = obs.lock().unwrap().peer.clone();
                if let Some(peer) = peer {
                    let (ack_tx, ack_rx) = tokio::sync::oneshot::channel();
                    let _ = peer.send((*n, ack_tx));
                    let _ = ack_rx.await;
                }
            }
            Op::Connect(k, wait) => {
                let mut ports = Vec::new();
                for _ in 0..*k {
                    ports.push(chmux::PortReq::new(tx.port_allocator().allocate().await));
                }
                let r = tx.connect(ports, *wait).await;
                let mut o = obs.lock().unwrap();
                match r {
                    Ok(c) => {
                        o.connects_sent += c.len();
                        o.results.push("ok".into());
                    }
                    Err(e) => o.results.push(format!("err:{e:?}")),
                }
            }
            Op::CancelConnect(k, p) => {
                let mut ports = Vec::new();
                for _ in 0..*k {
                    ports.push(chmux::PortReq::new(tx.port_allocator().allocate().await));
                }
                let r = cancel_at(tx.connect(ports, true), *p).await;
                let mut o = obs.lock().unwrap();
                match r {
                    Cancelled::Done(Ok(c)) => {
                        o.connects_sent += c.len();
                        o.results.push("ok(not cancelled)".into());
                    }
                    Cancelled::Done(Err(e)) => o.results.push(format!("err:{e:?}")),
                    Cancelled::Cancelled(polls) => {
                        if polls > 0 {
                            o.cancel_landed = true;
                        }
                        o.results.push(format!("cancelled@{polls}"));
                    }
                }
            }
            Op::CancelSend(n, p) => {
                let data = payload(i, *n);
                let r = cancel_at(tx.send(data.clone()), *p).await;
                let mut o = obs.lock().unwrap();
                match r {
                    Cancelled::Done(Ok(())) => {
                        o.completed.push(data.to_vec());
                        o.results.push("ok(not cancelled)".into());
                    }
                    Cancelled::Done(Err(e)) => o.results.push(format!("err:{e:?}")),
                    Cancelled::Cancelled(polls) => {
                        if polls > 0 {
                            o.cancel_landed = true;
                        }
                        o.results.push(format!("cancelled@{polls}"));
                    }
                }
            }
            Op::CancelChunk(parts, kc, p) => {
                // Chunks before `kc` are sent normally; the rest of the operation (chunks kc.. and
                // finish) is one future that is dropped at its p-th poll.
                let total: usize = parts.iter().sum();
                let data = payload(i, total);
                let mut off = 0;
                let mut cs_opt = Some(tx.send_chunks());
                let mut err = None;
                for part in parts.iter().take(*kc) {
                    let chunk = data.slice(off..off + part);
                    off += part;
                    match cs_opt.take().unwrap().send(chunk).await {
                        Ok(next) => cs_opt = Some(next),
                        Err(e) => {
                            err = Some(format!("err:{e:?}"));
                            break;
                        }
                    }
                }
                if let Some(e) = err {
                    obs.lock().unwrap().results.push(e);
                    continue;
                }
                let cs = cs_opt.take().unwrap();
                let rest: Vec<bytes::Bytes> = parts
                    .iter()
                    .skip(*kc)
                    .map(|part| {
                        let c = data.slice(off..off + part);
                        off += part;
                        c
                    })
                    .collect();
                let fut = async move {
                    let mut cs = cs;
                    for c in rest {
                        cs = cs.send(c).await?;
                    }
                    cs.finish().await
                };
                let r = cancel_at(fut, *p).await;
                let mut o = obs.lock().unwrap();
                match r {
                    Cancelled::Done(Ok(())) => {
                        o.completed.push(data.to_vec());
                        o.results.push("ok(not cancelled)".into());
                    }
                    Cancelled::Done(Err(e)) => o.results.push(format!("err:{e:?}")),
                    Cancelled::Cancelled(polls) => {
                        if polls > 0 {
                            o.cancel_landed = true;
                        }
                        o.results.push(format!("chunks-cancelled@{polls}"));
                    }
                }
            }
        }
    }
}

pub async fn receive_all(rx: &mut chmux::Receiver, style: RecvStyle, obs: &Shared<Obs>) {
    loop {
        match style {
            RecvStyle::RecvOnly => match rx.recv().await {
                Ok(Some(buf)) => {
                    let v: Vec<u8> = buf.into();
                    let mut o = obs.lock().unwrap();
                    o.recv_events.push(format!("data:{}", hex(&v)));
                    o.received.push(v);
                }
                Ok(None) => {
                    obs.lock().unwrap().recv_end = Some("eos".into());
                    return;
                }
                Err(e) => {
                    let mut o = obs.lock().unwrap();
                    o.recv_events.push(format!("recv-err:{e:?}"));
                    if e.is_final() {
                        o.recv_end = Some(format!("err:{e:?}"));
                        return;
                    }
                }
            },
            RecvStyle::AnyAfterCancel | RecvStyle::CancelEach(_) => match {
                if let RecvStyle::CancelEach(p) = style {
                    loop {
                        match cancel_at(rx.recv_any(), p.max(1)).await {
                            Cancelled::Done(r) => break r,
                            Cancelled::Cancelled(_) => obs.lock().unwrap().recv_cancels += 1,
                        }
                    }
                } else {
                    rx.recv_any().await
                }
            } {
                Ok(Some(Received::Data(buf))) => {
                    let v: Vec<u8> = buf.into();
                    let mut o = obs.lock().unwrap();
                    o.recv_events.push(format!("data:{}", hex(&v)));
                    o.received.push(v);
                }
                Ok(Some(Received::Chunks)) => {
                    let mut acc = Vec::new();
                    loop {
                        match rx.recv_chunk().await {
                            Ok(Some(c)) => acc.extend_from_slice(&c),
                            Ok(None) => {
                                let mut o = obs.lock().unwrap();
                                o.recv_events.push(format!("chunked:{}", hex(&acc)));
                                o.multi_chunk = true;
                                o.received.push(acc);
                                break;
                            }
                            Err(chmux::RecvChunkError::Cancelled) => {
                                obs.lock().unwrap().recv_events.push(format!("chunks-cancelled-after:{}", acc.len()));
                                break;
                            }
                            Err(e) => {
                                let mut o = obs.lock().unwrap();
                                o.recv_end = Some(format!("chunk-err:{e:?}"));
                                return;
                            }
                        }
                    }
                }
                Ok(Some(Received::Requests(reqs))) => {
                    let mut o = obs.lock().unwrap();
                    o.requests_received += reqs.len();
                    o.recv_events.push(format!("requests:{}", reqs.len()));
                }
                Ok(None) => {
                    obs.lock().unwrap().recv_end = Some("eos".into());
                    return;
                }
                Err(e) => {
                    let mut o = obs.lock().unwrap();
                    o.recv_end = Some(format!("err:{e:?}"));
                    return;
                }
            },
        }
    }
}

impl Scenario for PortScenario {
    fn id(&self) -> String {
        self.label()
    }

    fn start(&self, env: Env) -> (BoxFuture<'static, ()>, Judge) {
        let obs = shared(Obs::default());
        let (cfg_a, cfg_b, script, style, link) =
            (self.cfg_a.clone(), self.cfg_b.clone(), self.script.clone(), self.style, self.link);
        let explore_setup = self.explore_setup;
        let max_ports = [cfg_a.max_ports, cfg_b.max_ports];
        let o2 = obs.clone();
        let root = async move {
            env.explore(explore_setup);
            let ((ca, la), (cb, lb)) = match env.pair(cfg_a, cfg_b, link, &[]).await {
                Ok(x) => x,
                Err(e) => {
                    o2.lock().unwrap().setup_err = Some(e);
                    return;
                }
            };
            let mut lb = lb;
            let (conn, acc) = tokio::join!(ca.connect(), lb.accept());
            let (mut tx, _rx_a) = match conn {
                Ok(x) => x,
                Err(e) => {
                    o2.lock().unwrap().setup_err = Some(format!("{e:?}"));
                    return;
                }
            };
            let (_tx_b, mut rx) = match acc {
                Ok(Some(x)) => x,
                other => {
                    o2.lock().unwrap().setup_err = Some(format!("accept: {:?}", other.map(|o| o.is_some())));
                    return;
                }
            };
            env.explore(true);
            let o3 = o2.clone();
            let env2 = env.clone();
            let sender = env.spawn("sender", 1, async move {
                run_script(&env2, &mut tx, &script, &o3).await;
                o3.lock().unwrap().sender_done = true;
                tx
            });
            let o4 = o2.clone();
            let receiver = env.spawn("receiver", 2, async move {
                receive_all(&mut rx, style, &o4).await;
                rx
            });
            let tx = sender.await;
            // Quiescence with the sender still alive: everything completed must have arrived.
            env.quiesce().await;
            {
                let mut o = o2.lock().unwrap();
                o.received_at_quiescence = Some(o.received.len());
            }
            drop(tx);
            let _ = receiver.await;
            env.explore(false);
            drop((ca, la, cb, lb, _rx_a, _tx_b));
            tokio::time::sleep(Duration::from_secs(1)).await;
        };
        let limit = if self.style == RecvStyle::RecvOnly { Some(self.cfg_b.max_data_size) } else { None };
        let judge: Judge = Box::new(move |out: &Outcome| judge(out, &obs.lock().unwrap(), max_ports, limit));
        (Box::pin(root), judge)
    }
}

fn judge(out: &Outcome, o: &Obs, max_ports: [u32; 2], limit: Option<usize>) -> Verdict {
    let mut v = Verdict::default();
    v.findings.extend(panic_findings(out, "C01"));
    let (_l, lf) = ledger_findings(out, 0, max_ports, [false, false]);
    v.findings.extend(lf);
    if let Some(e) = &o.setup_err {
        v.fail("C01", "setup-failed", e.clone());
    }
    // `recv()` documents max_data_size as a limit: larger messages are reported as an error instead.
    let expected: Vec<Vec<u8>> =
        o.completed.iter().filter(|m| limit.map(|l| m.len() <= l).unwrap_or(true)).cloned().collect();
    let sent: Vec<String> = expected.iter().map(|m| hex(m)).collect();
    let got: Vec<String> = o.received.iter().map(|m| hex(m)).collect();
    if out.ending != crate::world::Ending::Completed {
        let what = if !o.sender_done { "sender" } else { "receiver" };
        v.fail(
            "C01",
            format!("{what}-stuck:{:?}", out.ending),
            format!("execution ended {:?}; results {:?}; sent {:?}; received {:?}; recv events {:?}", out.ending, o.results, sent, got, o.recv_events),
        );
    } else {
        if o.received != expected {
            let kind = if o.received.len() < expected.len() {
                "message-lost"
            } else if o.received.len() > expected.len() {
                "extra-message"
            } else {
                "message-corrupted"
            };
            v.fail(
                "C01",
                kind,
                format!("completed sends {:?} but receiver obtained {:?}; op results {:?}; receiver events {:?}", sent, got, o.results, o.recv_events),
            );
        } else if let Some(n) = o.received_at_quiescence {
            if n != expected.len() {
                v.fail(
                    "C01",
                    "not-delivered-while-connection-up",
                    format!("at quiescence with the sender alive only {n} of {} completed messages were delivered", expected.len()),
                );
            }
        }
        if o.recv_end.as_deref() != Some("eos") {
            v.fail("C01", "receiver-no-eos", format!("receiver ended with {:?}", o.recv_end));
        }
    }
    for (name, (_, r)) in &out.mux {
        if let Err(e) = r {
            v.fail("C01", "dispatcher-failed", format!("{name}: {e}"));
        }
    }
    v.outcome = format!("{:?}|{:?}|{:?}|{:?}", o.results, o.recv_events, o.recv_end, out.ending);
    v.nontrivial = o.multi_chunk || o.cancel_landed || o.completed.len() >= 2;
    v
}

fn sizes(cs: usize, rb: usize, mds: usize) -> Vec<usize> {
    let mut v = vec![0, 1, cs - 1, cs, cs + 1, rb, rb + 1, mds, mds + 1, 2 * mds + 1];
    v.sort_unstable();
    v.dedup();
    v
}

fn mk(cfg_a: &Cfg, cfg_b: &Cfg, script: Vec<Op>, style: RecvStyle, cap: usize) -> Arc<dyn Scenario> {
    Arc::new(PortScenario {
        cfg_a: cfg_a.clone(),
        cfg_b: cfg_b.clone(),
        script,
        style,
        link: LinkOpts { capacity: cap, deliver_cap: cap, eof_on_drop: false },
        explore_setup: false,
    })
}

/// Grid of scenarios at deviation bound 0 (SEQ part).
pub fn grid(tier: Tier) -> Vec<Arc<dyn Scenario>> {
    let mut out = Vec::new();
    // (sender cfg, receiver cfg): sizes are relative to the receiver's cfg.
    let cfgs: Vec<(Cfg, Cfg)> = vec![
        (cfg(8, 16, 16, 2, 2), cfg(4, 8, 12, 1, 1)),
        (cfg(4, 4, 8, 1, 1), cfg(8, 16, 16, 2, 2)),
        (cfg(16, 64, 64, 4, 4), cfg(5, 7, 9, 1, 2)),
        (cfg(4, 16, 8, 1, 1), cfg(4, 4, 8, 1, 1)),
    ];
    let ncfg = if tier == Tier::Quick { 2 } else { cfgs.len() };
    for (a, b) in cfgs.iter().take(ncfg) {
        let (cs, rb, mds) = (b.chunk_size as usize, b.receive_buffer as usize, b.max_data_size);
        let sz = sizes(cs, rb, mds);
        // single ops of every kind and size
        for &n in &sz {
            out.push(mk(a, b, vec![Op::Send(n)], RecvStyle::AnyAfterCancel, 2));
            out.push(mk(a, b, vec![Op::TrySend(n), Op::Send(1)], RecvStyle::AnyAfterCancel, 2));
            out.push(mk(a, b, vec![Op::Send(n)], RecvStyle::RecvOnly, 1));
        }
        // pairs
        for &n1 in &sz {
            for &n2 in &sz {
                out.push(mk(a, b, vec![Op::Send(n1), Op::Send(n2)], RecvStyle::AnyAfterCancel, 1));
            }
        }
        // chunked sends: every split of sizes into 1..3 chunks drawn from a small set
        let parts = [0usize, 1, cs, cs + 1, mds];
        for &p1 in &parts {
            for &p2 in &parts {
                for end in [End::Finish, End::Final, End::Abandon] {
                    out.push(mk(
                        a,
                        b,
                        vec![Op::Send(2), Op::Chunks(vec![p1, p2], end.clone()), Op::Send(3), Op::Send(1)],
                        RecvStyle::AnyAfterCancel,
                        2,
                    ));
                }
            }
        }
        // cancelled sends at every poll index, between two normal messages
        let max_p = if tier == Tier::Quick { 4 } else { 8 };
        for &n in &sz {
            for p in 0..max_p {
                out.push(mk(a, b, vec![Op::Send(3), Op::CancelSend(n, p), Op::Send(2)], RecvStyle::AnyAfterCancel, 1));
                out.push(mk(a, b, vec![Op::CancelSend(n, p), Op::Send(mds + 1)], RecvStyle::AnyAfterCancel, 1));
            }
        }
        for p in 0..max_p {
            for kc in 0..3 {
                out.push(mk(
                    a,
                    b,
                    vec![Op::Send(1), Op::CancelChunk(vec![cs, mds, cs + 1], kc, p), Op::Send(2), Op::Send(cs + 1)],
                    RecvStyle::AnyAfterCancel,
                    1,
                ));
            }
        }
    }
    out
}

/// Core scenarios explored under the scheduler with deviations.
pub fn core(tier: Tier) -> Vec<Arc<dyn Scenario>> {
    let a = cfg(8, 16, 16, 1, 1);
    let b = cfg(4, 8, 8, 1, 1);
    let (cs, rb, mds) = (4usize, 8usize, 8usize);
    let mut out = vec![
        mk(&a, &b, vec![Op::Send(cs + 1), Op::Send(0), Op::Send(1)], RecvStyle::AnyAfterCancel, 1),
        mk(&a, &b, vec![Op::Send(rb + 1), Op::Send(2)], RecvStyle::AnyAfterCancel, 1),
        mk(&a, &b, vec![Op::Send(2 * mds + 1), Op::Send(1)], RecvStyle::AnyAfterCancel, 1),
        mk(&a, &b, vec![Op::TrySend(cs), Op::TrySend(cs + 1), Op::Send(1)], RecvStyle::AnyAfterCancel, 1),
        mk(&a, &b, vec![Op::Chunks(vec![cs, cs], End::Finish), Op::Send(1)], RecvStyle::AnyAfterCancel, 1),
        mk(&a, &b, vec![Op::Chunks(vec![cs, mds], End::Final), Op::Send(1)], RecvStyle::AnyAfterCancel, 1),
        mk(&a, &b, vec![Op::Chunks(vec![1, 1], End::Abandon), Op::Send(2), Op::Send(1)], RecvStyle::AnyAfterCancel, 1),
        mk(&a, &b, vec![Op::Chunks(vec![cs, mds], End::Abandon), Op::Send(2), Op::Send(1)], RecvStyle::AnyAfterCancel, 1),
        mk(&a, &b, vec![Op::Send(1), Op::CancelSend(rb + 1, 2), Op::Send(2)], RecvStyle::AnyAfterCancel, 1),
        mk(&a, &b, vec![Op::Send(1), Op::CancelSend(2 * mds + 1, 3), Op::Send(2)], RecvStyle::AnyAfterCancel, 1),
        mk(&a, &b, vec![Op::CancelChunk(vec![cs, mds, 1], 1, 1), Op::Send(2), Op::Send(1)], RecvStyle::AnyAfterCancel, 1),
        mk(&a, &b, vec![Op::Send(cs + 1), Op::Send(rb)], RecvStyle::RecvOnly, 1),
    ];
    if tier == Tier::Thorough {
        let a2 = cfg(4, 4, 8, 2, 2);
        let b2 = cfg(8, 16, 16, 2, 2);
        out.push(mk(&a2, &b2, vec![Op::Send(17), Op::CancelSend(33, 2), Op::Send(9)], RecvStyle::AnyAfterCancel, 2));
        out.push(mk(&a2, &b2, vec![Op::Chunks(vec![8, 16], End::Abandon), Op::TrySend(8), Op::Send(1)], RecvStyle::AnyAfterCancel, 2));
        out.push(mk(&a, &b, vec![Op::CancelSend(rb + 1, 1), Op::CancelSend(rb + 1, 3), Op::Send(1)], RecvStyle::AnyAfterCancel, 1));
    }
    out
}

pub fn run(tier: Tier, seed: u64) -> i32 {
    let mut rep = Report::new("C01", tier, seed);
    let known = known_sigs("C01");
    let seeds = if tier == Tier::Quick { vec![seed, seed + 1] } else { (0..4).map(|i| seed + i).collect() };

    let g = grid(tier);
    let p = Params {
        max_dev: 0,
        seeds: vec![seed],
        time_limit: Duration::from_secs(if tier == Tier::Quick { 20 } else { 120 }),
        ..Default::default()
    };
    rep.add("grid(d=0): sizes x cfg pairs x op kinds x cancel points", explore("C01", g, p, &known));

    let c = core(tier);
    let p = Params {
        max_dev: if tier == Tier::Quick { 2 } else { 3 },
        seeds,
        time_limit: Duration::from_secs(if tier == Tier::Quick { 30 } else { 600 }),
        ..Default::default()
    };
    rep.add("core scripts under deviation-bounded schedule exploration", explore("C01", c, p, &known));

    rep.rule = "a case = (script of send/try_send/chunked/cancelled operations, cfg pair, receiver style, schedule given by its deviation list); distinct = distinct canonical observation log (op results + receiver event log + ending); non-trivial = a multi-chunk message was reassembled, a cancellation landed on a pending send, or >= 2 messages completed".into();
    rep.assumptions = vec![
        "select! branch order fixed per seed (not enumerated)".into(),
        "atomic step = one task poll up to its next Tokio resource operation; preemption points per poll capped".into(),
        "receiver follows the in-tree protocol: after RecvChunkError::Cancelled it continues with recv_any".into(),
    ];
    rep.finish()
}
