//! C08 Robustness against an arbitrary or hostile peer: explicit-state search over frame sequences
//! sent by a scripted peer to one real endpoint.

use bytes::Bytes;
use futures::future::BoxFuture;
use remoc::chmux::{self, Cfg, Received};
use std::{sync::Arc, time::Duration};

use crate::{
    explore::{Params, explore},
    net::{LinkEnd, LinkOpts, WireKind},
    report::{Report, Tier, known_sigs},
    util::{panic_findings, payload, shared},
    wire::{DirDecoder, HelloCfg, Item, Msg},
    world::{Ending, Env, Judge, Outcome, Scenario, Verdict, cfg},
};

/// API state of the real endpoint before the hostile frames arrive.
#[derive(Debug, Clone, Copy, PartialEq, Eq)]
pub enum Prefix {
    /// Handshake done, nothing open.
    Fresh,
    /// Local endpoint has a connect request outstanding (port connecting).
    Connecting,
    /// One port connected (opened by the local endpoint), local receiver reading.
    Connected,
    /// One port connected, local receiver NOT reading (buffer bound).
    ConnectedIdle,
    /// Port connected, peer already sent SendFinish (half-closed).
    HalfClosedRemoteSend,
    /// Port connected, local sender dropped.
    HalfClosedLocalSend,
    /// Port fully closed and freed.
    Freed,
    /// Peer opened a port towards the local endpoint; request un-accepted in the listener queue.
    RequestQueued,
}

/// deliberately different from (much larger than) the endpoint's own receive buffer: nothing the peer
/// advertises about itself may widen what the endpoint accepts
pub const PEER_RB: u32 = 4096;
pub const LOCAL_RB: u32 = 16;
/// port requests one message may carry towards the endpoint
pub const LOCAL_MAX_RECEIVED_PORTS: usize = 4;
pub const LOCAL_CS: u32 = 8;
pub const LOCAL_CQ: u16 = 2;

/// Raw frames of the alphabet. `lp` = local endpoint's port number (as learnt from its OpenPort),
/// `pp` = the peer's own port number.
pub fn alphabet(lp: u32, pp: u32) -> Vec<(String, Vec<Vec<u8>>)> {
    let mut a: Vec<(String, Vec<Vec<u8>>)> = Vec::new();
    let m = |name: &str, msg: Msg| (name.to_string(), vec![msg.encode()]);
    let data = |name: &str, port: u32, first: bool, last: bool, len: usize| {
        (name.to_string(), vec![Msg::Data { port, first, last }.encode(), vec![0xAB; len]])
    };
    let ports = [("lp", lp), ("unk", 77)];
    a.push(m("Reset", Msg::Reset));
    a.push(m("Ping", Msg::Ping));
    a.push(m(
        "Hello",
        Msg::Hello { version: 3, cfg: HelloCfg { timeout_ms: 0, chunk_size: 8, receive_buffer: PEER_RB, connect_queue: 2 } },
    ));
    a.push(m("Goodbye", Msg::Goodbye));
    a.push(m("ClientFinish", Msg::ClientFinish));
    a.push(m("ListenerFinish", Msg::ListenerFinish));
    for (w, wait) in [("w", true), ("n", false)] {
        a.push(m(&format!("OpenPort:{w}:new"), Msg::OpenPort { client_port: 200, wait, id: Some(9) }));
        a.push(m(&format!("OpenPort:{w}:dup"), Msg::OpenPort { client_port: pp, wait, id: None }));
    }
    a.push(m("OpenPort:max", Msg::OpenPort { client_port: u32::MAX, wait: true, id: Some(u32::MAX) }));
    for (pn, p) in ports {
        a.push(m(&format!("PortOpened:{pn}"), Msg::PortOpened { client_port: p, server_port: pp }));
        a.push(m(&format!("PortOpened:{pn}:other"), Msg::PortOpened { client_port: p, server_port: 300 }));
        a.push(m(&format!("Rejected:{pn}"), Msg::Rejected { client_port: p, no_ports: false }));
        a.push(m(&format!("Rejected:{pn}:np"), Msg::Rejected { client_port: p, no_ports: true }));
        for (f, first, last) in [("FL", true, true), ("F", true, false), ("L", false, true), ("M", false, false)] {
            for len in [0usize, 1, LOCAL_CS as usize, LOCAL_CS as usize + 1] {
                if pn == "unk" && !(first && last) {
                    continue;
                }
                a.push(data(&format!("Data:{pn}:{f}:{len}"), p, first, last, len));
            }
        }
        a.push(m(&format!("PortData:{pn}:empty"), Msg::PortData { port: p, first: true, last: true, wait: false, ports: vec![], ids: Some(vec![]) }));
        a.push(m(&format!("PortData:{pn}:one"), Msg::PortData { port: p, first: true, last: true, wait: true, ports: vec![400], ids: Some(vec![1]) }));
        a.push(m(&format!("PortData:{pn}:dup"), Msg::PortData { port: p, first: true, last: false, wait: false, ports: vec![401, 401], ids: None }));
        a.push(m(
            &format!("PortData:{pn}:many"),
            Msg::PortData { port: p, first: false, last: true, wait: false, ports: (500..500 + LOCAL_CS / 4 + 1).collect(), ids: None },
        ));
        for (cn, c) in [("0", 0u32), ("1", 1), ("rb", PEER_RB), ("max", u32::MAX)] {
            a.push(m(&format!("PortCredits:{pn}:{cn}"), Msg::PortCredits { port: p, credits: c }));
        }
        a.push(m(&format!("SendFinish:{pn}"), Msg::SendFinish { port: p }));
        a.push(m(&format!("ReceiveClose:{pn}"), Msg::ReceiveClose { port: p }));
        a.push(m(&format!("ReceiveFinish:{pn}"), Msg::ReceiveFinish { port: p }));
    }
    // malformed
    a.push(("empty-frame".into(), vec![vec![]]));
    a.push(("unknown-code".into(), vec![vec![0x63, 1, 2, 3]]));
    a.push(("code-zero".into(), vec![vec![0]]));
    a.push(("truncated-OpenPort".into(), vec![vec![4, 1, 0]]));
    a.push(("truncated-PortOpened".into(), vec![vec![5, 1, 0, 0, 0, 2]]));
    a.push(("truncated-Data-header".into(), vec![vec![7, 1]]));
    a.push(("Data-without-payload".into(), vec![Msg::Data { port: lp, first: true, last: true }.encode()]));
    a.push(("bad-magic-Hello".into(), vec![{
        let mut h = Msg::Hello { version: 3, cfg: HelloCfg { timeout_ms: 0, chunk_size: 8, receive_buffer: 16, connect_queue: 2 } }.encode();
        h[3] = b'X';
        h
    }]));
    a.push(("Hello-invalid-cfg".into(), vec![{
        let mut h = Msg::Hello { version: 3, cfg: HelloCfg { timeout_ms: 0, chunk_size: 8, receive_buffer: 16, connect_queue: 2 } }.encode();
        // chunk_size = 0
        for b in &mut h[16..20] {
            *b = 0;
        }
        h
    }]));
    // an unfinished port-request message that keeps growing with fresh port numbers (2 ports = 8 credits per frame)
    for (k, base) in [(0u32, 410u32), (1, 412), (2, 414), (3, 416)] {
        a.push(m(&format!("PortData:lp:grow{k}"), Msg::PortData { port: lp, first: k == 0, last: false, wait: false, ports: vec![base, base + 1], ids: None }));
    }
    a.push(("PortData-trailing".into(), vec![{
        let mut f = Msg::PortData { port: lp, first: true, last: true, wait: false, ports: vec![600], ids: None }.encode();
        f.extend_from_slice(&[1, 2]);
        f
    }]));
    a.push(("PortData-ids-odd".into(), vec![{
        let mut f = Msg::PortData { port: lp, first: true, last: true, wait: false, ports: vec![601], ids: Some(vec![1]) }.encode();
        f.extend_from_slice(&[9, 9, 9, 9]);
        f
    }]));
    a.push(("huge-frame".into(), vec![vec![9; 4096]]));
    a
}

pub fn alphabet_len() -> usize {
    alphabet(0, 0).len()
}

#[derive(Default)]
struct Obs {
    err: Option<String>,
    frames: Vec<String>,
    /// bytes obtained by the local receiver
    received_bytes: usize,
    /// results of local operations after the hostile frames
    probe: Vec<String>,
    local_errors: Vec<String>,
    alive_probe_ok: Option<bool>,
    max_unread: usize,
    /// dispatcher result before the scripted peer went away
    result: Option<Result<(), String>>,
    goodbye_by_endpoint: bool,
}

pub struct PeerScenario {
    pub prefix: Prefix,
    /// indices into the alphabet
    pub seq: Vec<usize>,
}

/// Scripted peer: talks raw frames on its link end.
pub struct RawPeer {
    pub end: Option<LinkEnd>,
    pub dec: DirDecoder,
}

impl RawPeer {
    pub async fn send(&mut self, frame: Vec<u8>) -> bool {
        use futures::SinkExt;
        match self.end.as_mut() {
            Some(e) => e.sink.send(Bytes::from(frame)).await.is_ok(),
            None => false,
        }
    }

    /// Next decoded message from the real endpoint (None = link closed).
    pub async fn recv(&mut self) -> Option<Item> {
        use futures::StreamExt;
        let e = self.end.as_mut()?;
        match e.stream.next().await {
            Some(Ok(f)) => Some(self.dec.feed(&f)),
            _ => None,
        }
    }

    /// Receives until a message matching `f` arrives (with a virtual-time limit).
    pub async fn expect<T>(&mut self, mut f: impl FnMut(&Msg) -> Option<T>) -> Option<T> {
        let fut = async {
            loop {
                match self.recv().await? {
                    Item::Msg(m) => {
                        if let Some(t) = f(&m) {
                            return Some(t);
                        }
                    }
                    _ => {}
                }
            }
        };
        tokio::time::timeout(Duration::from_secs(5), fut).await.ok().flatten()
    }
}

impl Scenario for PeerScenario {
    fn id(&self) -> String {
        format!("c08/{:?}/{:?}", self.prefix, self.seq)
    }

    fn start(&self, env: Env) -> (BoxFuture<'static, ()>, Judge) {
        let obs = shared(Obs::default());
        let (prefix, seq) = (self.prefix, self.seq.clone());
        let o2 = obs.clone();
        let root = async move {
            env.explore(false);
            let local_cfg = Cfg { connect_queue: LOCAL_CQ, max_ports: 8, max_received_ports: LOCAL_MAX_RECEIVED_PORTS, ..cfg(LOCAL_CS, LOCAL_RB, 32, 2, 2) };
            let link = LinkOpts { capacity: 64, deliver_cap: 64, eof_on_drop: true };
            let (ea, eb) = env.link(link, &[]);
            let ready = env.endpoint("A", 1, local_cfg, ea);
            let mut peer = RawPeer { end: Some(eb), dec: DirDecoder::default() };
            // Handshake as a conforming peer.
            peer.send(Msg::Reset.encode()).await;
            peer.send(Msg::Hello { version: 3, cfg: HelloCfg { timeout_ms: 0, chunk_size: 8, receive_buffer: PEER_RB, connect_queue: 2 } }.encode()).await;
            let Ok(Ok((client, mut listener))) = ready.await else {
                o2.lock().unwrap().err = Some("handshake".into());
                return;
            };
            if peer.expect(|m| matches!(m, Msg::Hello { .. }).then_some(())).await.is_none() {
                o2.lock().unwrap().err = Some("no hello".into());
                return;
            }
            // Bring the endpoint into the API state.
            let pp = 50u32; // peer's port number
            let mut lp = 0u32;
            let mut tx: Option<chmux::Sender> = None;
            let mut rx_task = None;
            let mut pending_connect = None;
            let mut idle_rx: Option<chmux::Receiver> = None;
            match prefix {
                Prefix::Fresh => {}
                Prefix::RequestQueued => {
                    peer.send(Msg::OpenPort { client_port: pp, wait: true, id: Some(5) }.encode()).await;
                    env.quiesce().await;
                }
                _ => {
                    let c2 = client.clone();
                    let h = env.spawn("connect", 1, async move { c2.connect().await });
                    match peer.expect(|m| if let Msg::OpenPort { client_port, .. } = m { Some(*client_port) } else { None }).await {
                        Some(p) => lp = p,
                        None => {
                            o2.lock().unwrap().err = Some("no OpenPort".into());
                            return;
                        }
                    }
                    if prefix == Prefix::Connecting {
                        pending_connect = Some(h);
                    } else {
                        peer.send(Msg::PortOpened { client_port: lp, server_port: pp }.encode()).await;
                        match h.await {
                            Ok(Ok((t, r))) => {
                                tx = Some(t);
                                if prefix == Prefix::ConnectedIdle {
                                    idle_rx = Some(r);
                                } else {
                                    let o3 = o2.clone();
                                    rx_task = Some(env.spawn("reader", 1, async move {
                                        let mut r = r;
                                        loop {
                                            match r.recv_any().await {
                                                Ok(Some(Received::Data(d))) => {
                                                    use bytes::Buf;
                                                    o3.lock().unwrap().received_bytes += d.remaining();
                                                }
                                                Ok(Some(Received::Chunks)) => loop {
                                                    match r.recv_chunk().await {
                                                        Ok(Some(c)) => o3.lock().unwrap().received_bytes += c.len(),
                                                        Ok(None) => break,
                                                        Err(chmux::RecvChunkError::Cancelled) => break,
                                                        Err(e) => {
                                                            o3.lock().unwrap().local_errors.push(format!("recv_chunk:{e:?}"));
                                                            return;
                                                        }
                                                    }
                                                },
                                                Ok(Some(Received::Requests(reqs))) => drop(reqs),
                                                Ok(None) => return,
                                                Err(e) => {
                                                    o3.lock().unwrap().local_errors.push(format!("recv:{e:?}"));
                                                    if e.is_final() {
                                                        return;
                                                    }
                                                }
                                            }
                                        }
                                    }));
                                }
                            }
                            _ => {
                                o2.lock().unwrap().err = Some("connect failed".into());
                                return;
                            }
                        }
                        match prefix {
                            Prefix::HalfClosedRemoteSend => {
                                peer.send(Msg::SendFinish { port: lp }.encode()).await;
                            }
                            Prefix::HalfClosedLocalSend => {
                                drop(tx.take());
                            }
                            Prefix::Freed => {
                                drop(tx.take());
                                peer.send(Msg::SendFinish { port: lp }.encode()).await;
                                peer.send(Msg::ReceiveFinish { port: lp }.encode()).await;
                                if let Some(t) = rx_task.take() {
                                    let _ = t.await;
                                }
                            }
                            _ => {}
                        }
                        env.quiesce().await;
                    }
                }
            }
            // The hostile frames.
            let alpha = alphabet(lp, pp);
            for i in &seq {
                let (name, frames) = &alpha[*i];
                o2.lock().unwrap().frames.push(name.clone());
                for f in frames {
                    if !peer.send(f.clone()).await {
                        break;
                    }
                }
                env.quiesce().await;
            }
            env.quiesce().await;
            // If the endpoint started an orderly shutdown (it sent Goodbye), a conforming peer answers.
            let said_goodbye = {
                let mut dec = DirDecoder::default();
                env.wire.snapshot().iter().filter(|e| e.dir == 0 && e.kind == WireKind::Sent).any(|e| matches!(dec.feed(&e.frame), Item::Msg(Msg::Goodbye)))
            };
            if said_goodbye && env.mux_result("A").is_none() {
                peer.send(Msg::Goodbye.encode()).await;
                env.quiesce().await;
                o2.lock().unwrap().goodbye_by_endpoint = true;
            }
            let terminated = env.mux_result("A").is_some();
            if !terminated {
                // Liveness probe with conforming exchanges: a fresh port opened by the local client and a
                // fresh port opened by the peer. After ListenerFinish / ClientFinish from the peer the
                // corresponding direction is legitimately refused, but must still answer promptly.
                let sent_lf = seq.iter().any(|i| alpha[*i].0 == "ListenerFinish");
                let sent_cf = seq.iter().any(|i| alpha[*i].0 == "ClientFinish");
                let c2 = client.clone();
                let h = env.spawn("probe-connect", 1, async move { c2.connect().await });
                let mut connect_ok = false;
                let mut connect_prompt = false;
                let opened = peer.expect(|m| if let Msg::OpenPort { client_port, .. } = m { Some(*client_port) } else { None }).await;
                if let Some(np) = opened {
                    peer.send(Msg::PortOpened { client_port: np, server_port: 60 }.encode()).await;
                }
                if let Ok(Ok(r)) = tokio::time::timeout(Duration::from_secs(5), h).await {
                    connect_prompt = true;
                    if let (Ok((mut ptx, mut prx)), Some(np)) = (r, opened) {
                        let sent = ptx.send(payload(3, 5)).await.is_ok();
                        let got_data = peer.expect(|m| matches!(m, Msg::Data { port: 60, .. }).then_some(())).await.is_some();
                        peer.send(Msg::Data { port: np, first: true, last: true }.encode()).await;
                        peer.send(vec![1, 2, 3]).await;
                        let echo = tokio::time::timeout(Duration::from_secs(5), prx.recv()).await;
                        connect_ok = sent && got_data && matches!(echo, Ok(Ok(Some(_))));
                    }
                }
                // peer-initiated port
                let mut accept_ok = false;
                let mut accept_prompt = false;
                if env.mux_result("A").is_none() {
                    // drain a possibly queued earlier request first by accepting until ours (id 4242) arrives
                    peer.send(Msg::OpenPort { client_port: 61, wait: true, id: Some(4242) }.encode()).await;
                    for _ in 0..4 {
                        match tokio::time::timeout(Duration::from_secs(5), listener.inspect()).await {
                            Ok(Ok(Some(req))) => {
                                accept_prompt = true;
                                if req.id() == 4242 {
                                    if let Ok(Ok((_t, mut r))) = tokio::time::timeout(Duration::from_secs(5), req.accept()).await {
                                        if let Some(sp) = peer.expect(|m| if let Msg::PortOpened { client_port: 61, server_port } = m { Some(*server_port) } else { None }).await {
                                            peer.send(Msg::Data { port: sp, first: true, last: true }.encode()).await;
                                            peer.send(vec![7, 7]).await;
                                            accept_ok = matches!(tokio::time::timeout(Duration::from_secs(5), r.recv()).await, Ok(Ok(Some(_))));
                                        }
                                    }
                                    break;
                                } else {
                                    drop(req);
                                }
                            }
                            Ok(_) => {
                                accept_prompt = true;
                                break;
                            }
                            Err(_) => break,
                        }
                    }
                }
                let terminated_now = env.mux_result("A").is_some();
                let ok = terminated_now
                    || ((connect_ok || (sent_lf && connect_prompt)) && (accept_ok || (sent_cf && accept_prompt)));
                let mut o = o2.lock().unwrap();
                o.alive_probe_ok = Some(ok);
                o.probe = vec![format!("connect_ok={connect_ok} prompt={connect_prompt} accept_ok={accept_ok} prompt={accept_prompt}")];
            } else {
                // Every local handle must report an error.
                let mut probe = Vec::new();
                let r = tokio::time::timeout(Duration::from_secs(5), client.connect()).await;
                probe.push(format!("connect:{}", match r {
                    Err(_) => "hang".to_string(),
                    Ok(Ok(_)) => "ok".to_string(),
                    Ok(Err(_)) => "err".to_string(),
                }));
                let r = tokio::time::timeout(Duration::from_secs(5), listener.accept()).await;
                probe.push(format!("accept:{}", match r {
                    Err(_) => "hang".to_string(),
                    Ok(Ok(Some(_))) => "ok".to_string(),
                    Ok(Ok(None)) => "none".to_string(),
                    Ok(Err(_)) => "err".to_string(),
                }));
                if let Some(t) = tx.as_mut() {
                    let r = tokio::time::timeout(Duration::from_secs(5), t.send(payload(1, 3))).await;
                    probe.push(format!("send:{}", match r {
                        Err(_) => "hang".to_string(),
                        Ok(Ok(_)) => "ok".to_string(),
                        Ok(Err(_)) => "err".to_string(),
                    }));
                }
                if let Some(h) = pending_connect.take() {
                    let r = tokio::time::timeout(Duration::from_secs(5), h).await;
                    probe.push(format!("pending-connect:{}", match r {
                        Err(_) => "hang".to_string(),
                        Ok(Ok(Ok(_))) => "ok".to_string(),
                        _ => "err".to_string(),
                    }));
                }
                if let Some(r) = idle_rx.as_mut() {
                    // drain: data accepted before the failure may still be read, then an error must follow
                    let mut res = "hang".to_string();
                    for _ in 0..64 {
                        match tokio::time::timeout(Duration::from_secs(5), r.recv_any()).await {
                            Err(_) => break,
                            Ok(Ok(Some(Received::Data(d)))) => {
                                use bytes::Buf;
                                o2.lock().unwrap().max_unread += d.remaining();
                            }
                            Ok(Ok(Some(_))) => {}
                            Ok(Ok(None)) => {
                                res = "eos".into();
                                break;
                            }
                            Ok(Err(e)) => {
                                if e.is_final() {
                                    res = "err".into();
                                    break;
                                }
                            }
                        }
                    }
                    probe.push(format!("idle-recv:{res}"));
                }
                if let Some(t) = rx_task.take() {
                    let r = tokio::time::timeout(Duration::from_secs(5), t).await;
                    probe.push(format!("reader:{}", if r.is_ok() { "ended" } else { "hang" }));
                }
                o2.lock().unwrap().probe = probe;
            }
            o2.lock().unwrap().result = env.mux_result("A").map(|(_, r)| r);
            drop(peer);
        };
        let judge: Judge = Box::new(move |out: &Outcome| {
            let o = obs.lock().unwrap();
            let mut v = Verdict::default();
            v.findings.extend(panic_findings(out, "C08"));
            if let Some(e) = &o.err {
                v.fail("C08", "setup-failed", e.clone());
            }
            if out.ending != Ending::Completed {
                v.fail("C08", "hang-after-hostile-frames", format!("{:?} after frames {:?}", out.ending, o.frames));
            }
            // Payload bytes delivered to the endpoint for the idle port must not exceed the advertised buffer.
            let mut dec = DirDecoder::default();
            let mut accepted: u64 = 0;
            for ev in out.wire.iter().filter(|e| e.dir == 1 && e.kind == WireKind::Delivered) {
                if let Item::Payload(n) = dec.feed(&ev.frame) {
                    accepted += n as u64;
                }
            }
            match &o.result {
                Some(Ok(())) => {
                    for p in &o.probe {
                        if p != "pending-connect:ok" && (p.ends_with(":hang") || p.ends_with(":ok")) {
                            v.fail("C08", format!("local-user-not-failed:{p}"), format!("after orderly termination (frames {:?}) local operation {p}", o.frames));
                        }
                    }
                    // orderly end (Goodbye): acceptable only if a Goodbye was among the frames
                    if !o.frames.iter().any(|f| f == "Goodbye") && !o.goodbye_by_endpoint {
                        v.fail("C08", "terminated-ok-without-goodbye", format!("frames {:?}", o.frames));
                    }
                }
                Some(Err(e)) => {
                    let ok_kind = e.contains("Protocol") || e.contains("Reset") || e.contains("StreamClosed");
                    if !ok_kind {
                        v.fail("C08", "unexpected-termination-kind", format!("{e} after {:?}", o.frames));
                    }
                    for p in &o.probe {
                        // a connect answered before the failure may have succeeded
                        if p == "pending-connect:ok" {
                            continue;
                        }
                        if p.ends_with(":hang") || p.ends_with(":ok") {
                            v.fail("C08", format!("local-user-not-failed:{p}"), format!("after termination with {e} (frames {:?}) local operation {p}", o.frames));
                        }
                    }
                }
                None => {
                    if o.alive_probe_ok != Some(true) {
                        v.fail("C08", "endpoint-neither-alive-nor-terminated", format!("after frames {:?} (prefix {prefix:?}) the endpoint did not terminate and a conforming port exchange fails", o.frames));
                    }
                    if prefix == Prefix::ConnectedIdle && accepted > LOCAL_RB as u64 + 64 {
                        v.fail("C08", "buffered-beyond-receive-buffer", format!("{accepted} payload bytes accepted for a port whose receiver does not read (receive_buffer {LOCAL_RB})"));
                    }
                    // a port-request message that grew past max_received_ports must have been refused to the reading user
                    let mut cur = 0usize;
                    let mut most = 0usize;
                    for f in &o.frames {
                        if f.ends_with(":grow0") {
                            cur = 2;
                        } else if f.contains(":grow") && cur > 0 {
                            cur += 2;
                        }
                        most = most.max(cur);
                    }
                    if prefix == Prefix::Connected && most > LOCAL_MAX_RECEIVED_PORTS && !o.local_errors.iter().any(|e| e.starts_with("recv:")) {
                        v.fail("C08", "port-request-limit-not-enforced", format!("an unfinished port-request message carried {most} ports (limit {LOCAL_MAX_RECEIVED_PORTS}) and the reading user saw no error; frames {:?}", o.frames));
                    }
                }
            }
            v.outcome = format!("{:?}|{:?}|{:?}", o.result, o.probe, o.alive_probe_ok);
            v.nontrivial = o.result.is_some();
            v
        });
        (Box::pin(root), judge)
    }
}

pub const PREFIXES: [Prefix; 8] = [
    Prefix::Fresh,
    Prefix::Connecting,
    Prefix::Connected,
    Prefix::ConnectedIdle,
    Prefix::HalfClosedRemoteSend,
    Prefix::HalfClosedLocalSend,
    Prefix::Freed,
    Prefix::RequestQueued,
];

pub fn scenarios(tier: Tier) -> Vec<Arc<dyn Scenario>> {
    let n = alphabet_len();
    let mut out: Vec<Arc<dyn Scenario>> = Vec::new();
    for p in PREFIXES {
        for i in 0..n {
            out.push(Arc::new(PeerScenario { prefix: p, seq: vec![i] }));
        }
    }
    // depth 2: all pairs from every API state
    for p in PREFIXES {
        for i in 0..n {
            for j in 0..n {
                out.push(Arc::new(PeerScenario { prefix: p, seq: vec![i, j] }));
            }
        }
    }
    if tier == Tier::Thorough {
        // depth 3: all triples from every API state
        for p in PREFIXES {
            for i in 0..n {
                for j in 0..n {
                    for k in 0..n {
                        out.push(Arc::new(PeerScenario { prefix: p, seq: vec![i, j, k] }));
                    }
                }
            }
        }
    }
    // credit overrun: more data than granted on an idle port
    let a = alphabet(0, 50);
    let full = a.iter().position(|(n, _)| n == "Data:lp:FL:8").unwrap();
    out.push(Arc::new(PeerScenario { prefix: Prefix::ConnectedIdle, seq: vec![full, full, full] }));
    out.push(Arc::new(PeerScenario { prefix: Prefix::ConnectedIdle, seq: vec![full, full, full, full, full] }));
    // far beyond the endpoint's own receive buffer, although still within the (larger) buffer the peer advertised for itself
    out.push(Arc::new(PeerScenario { prefix: Prefix::ConnectedIdle, seq: vec![full; 12] }));
    out.push(Arc::new(PeerScenario { prefix: Prefix::ConnectedIdle, seq: vec![full; 24] }));
    // a port-request message that never ends and exceeds max_received_ports, each frame within credit
    let grow: Vec<usize> = (0..4).map(|k| a.iter().position(|(n, _)| *n == format!("PortData:lp:grow{k}")).unwrap()).collect();
    out.push(Arc::new(PeerScenario { prefix: Prefix::Connected, seq: grow.clone() }));
    out.push(Arc::new(PeerScenario { prefix: Prefix::Connected, seq: vec![grow[0], grow[1], grow[2], grow[3], grow[1], grow[2]] }));
    // OpenPort flood beyond connect_queue
    let open = a.iter().position(|(n, _)| n == "OpenPort:w:new").unwrap();
    let open2 = a.iter().position(|(n, _)| n == "OpenPort:max").unwrap();
    let open3 = a.iter().position(|(n, _)| n == "OpenPort:n:dup").unwrap();
    out.push(Arc::new(PeerScenario { prefix: Prefix::Fresh, seq: vec![open, open2, open3] }));
    out.push(Arc::new(PeerScenario { prefix: Prefix::RequestQueued, seq: vec![open, open2, open2] }));
    out
}

pub fn all_scenarios(tier: Tier) -> Vec<Arc<dyn Scenario>> {
    scenarios(tier)
}

pub fn run(tier: Tier, seed: u64) -> i32 {
    let mut rep = Report::new("C08", tier, seed);
    let known = known_sigs("C08");
    let q = tier == Tier::Quick;
    let p = Params { max_dev: 0, seeds: vec![seed], time_limit: Duration::from_secs(if q { 40 } else { 1500 }), ..Default::default() };
    let s = explore("C08", scenarios(tier), p, &known);
    rep.add("all frame sequences of depth <= 2 (quick) / <= 3 (thorough) from 8 API states fed to one real endpoint", s);
    rep.extra.insert("alphabet_size".into(), serde_json::json!(alphabet_len()));
    rep.extra.insert("api_state_prefixes".into(), serde_json::json!(PREFIXES.iter().map(|p| format!("{p:?}")).collect::<Vec<_>>()));
    rep.rule = "a case = (API state prefix, sequence of raw frames from the alphabet: every message kind on connected/unknown ports with all flag combinations, sizes 0/1/chunk/chunk+1, credits 0/1/rb/u32::MAX, malformed and truncated frames, floods); state = frame history; distinct = distinct (dispatcher result, local probe results); non-trivial = the endpoint terminated the connection".into();
    rep.assumptions = vec![
        "search is over frame histories (breadth-first by depth); local actors run to quiescence on the default schedule after every frame".into(),
        "bounded overhead for buffering = 64 bytes beyond the advertised receive buffer".into(),
    ];
    rep.finish()
}
