//! C13 A mirror of an observable collection equals the collection.

use futures::future::BoxFuture;
use remoc::{
    codec,
    robs::{
        hash_map::{HashMapEvent, HashMapSubscription, ObservableHashMap},
        hash_set::{HashSetEvent, HashSetSubscription, ObservableHashSet},
        list::{ListSubscription, ObservableList},
        vec::{ObservableVec, VecEvent, VecSubscription},
        vec_deque::{ObservableVecDeque, VecDequeEvent, VecDequeSubscription},
    },
};
use serde::{Deserialize, Serialize};
use std::{
    collections::{BTreeMap, BTreeSet, HashMap, HashSet, VecDeque},
    sync::Arc,
    time::Duration,
};

use super::c04::{base_pair, carrier_cfg};
use crate::{
    explore::{Params, explore},
    net::LinkOpts,
    report::{Report, Tier, known_sigs},
    util::{panic_findings, shared},
    world::{Ending, Env, Judge, Outcome, Scenario, Verdict},
};

type C = codec::Default;

#[derive(Debug, Clone, Copy, PartialEq, Eq, Hash)]
pub enum Kind {
    Vec,
    Deque,
    Map,
    Set,
    List,
}

/// Operations; arguments are interpreted per collection (value domain 0..=2, index selectors).
#[derive(Debug, Clone, Copy, PartialEq, Eq, Hash)]
pub enum Op {
    Push(u8),
    PushFront(u8),
    Pop,
    PopFront,
    /// get_mut(i) and write v through the reference
    GetMutWrite(u8, u8),
    /// get_mut(i) without writing
    GetMutRead(u8),
    /// iter_mut writing +1 to every element
    IterMutWrite,
    /// iter_mut touching nothing mutably
    IterMutRead,
    Insert(u8, u8),
    Remove(u8),
    SwapRemove(u8),
    SwapRemoveFront(u8),
    Fill(u8),
    Resize(u8, u8),
    Truncate(u8),
    Clear,
    /// retain: 0 = keep all, 1 = keep none, 2 = keep even values / keys, 3 = keep all but mutate each value (maps only)
    Retain(u8),
    ShrinkToFit,
    /// map / set specific
    Replace(u8),
    Take(u8),
    EntryOrInsert(u8, u8),
    EntryOrInsertWrite(u8, u8),
    EntryAndModify(u8),
    EntryRemove(u8),
    EntryInsert(u8, u8),
    /// Extend with two elements
    Extend,
    Done,
}

/// Index selector -> concrete index for a collection of length `len` (None = not applicable).
fn idx(sel: u8, len: usize, allow_len: bool) -> Option<usize> {
    let i = match sel {
        0 => 0,
        1 => len / 2,
        2 => len.checked_sub(1)?,
        _ => len,
    };
    if i < len || (allow_len && i == len) { Some(i) } else { None }
}

pub fn ops_of(kind: Kind) -> Vec<Op> {
    use Op::*;
    match kind {
        Kind::Vec => vec![
            Push(0), Push(1), Pop, GetMutWrite(0, 2), GetMutWrite(2, 1), GetMutRead(1), IterMutWrite, IterMutRead, Insert(0, 2), Insert(1, 0), Insert(3, 1),
            Remove(0), Remove(2), SwapRemove(0), SwapRemove(1), Fill(2), Resize(0, 1), Resize(3, 2), Resize(5, 0), Truncate(1), Truncate(4), Clear,
            Retain(0), Retain(1), Retain(2), ShrinkToFit, Extend, Done,
        ],
        Kind::Deque => vec![
            Push(0), PushFront(1), Pop, PopFront, GetMutWrite(0, 2), GetMutRead(2), IterMutWrite, IterMutRead, Insert(0, 2), Insert(1, 0), Insert(3, 1),
            Remove(0), Remove(2), SwapRemove(0), SwapRemove(1), SwapRemoveFront(1), SwapRemoveFront(2), Resize(0, 1), Resize(3, 2), Truncate(1), Clear,
            Retain(0), Retain(1), Retain(2), ShrinkToFit, Extend, Done,
        ],
        Kind::Map => vec![
            Insert(0, 1), Insert(1, 2), Insert(0, 0), Remove(0), Remove(2), Clear, Retain(0), Retain(1), Retain(2), Retain(3), EntryOrInsert(1, 1),
            EntryOrInsertWrite(2, 2), EntryOrInsertWrite(0, 1), EntryAndModify(0), EntryAndModify(2), EntryRemove(1), EntryInsert(0, 2), GetMutWrite(0, 2), GetMutRead(1),
            IterMutWrite, IterMutRead, ShrinkToFit, Extend, Done,
        ],
        Kind::Set => vec![Insert(0, 0), Insert(1, 0), Replace(0), Replace(2), Remove(0), Remove(2), Take(1), Clear, Retain(0), Retain(1), Retain(2), ShrinkToFit, Extend, Done],
        Kind::List => vec![Push(0), Push(1), Extend, Done],
    }
}

/// The real observable collection.
pub enum Obs {
    Vec(ObservableVec<u8, C>),
    Deque(ObservableVecDeque<u8, C>),
    Map(ObservableHashMap<u8, u32, C>),
    Set(ObservableHashSet<u8, C>),
    List(ObservableList<u8, C>),
}

impl Obs {
    pub fn new(kind: Kind) -> Self {
        match kind {
            Kind::Vec => Obs::Vec(ObservableVec::new()),
            Kind::Deque => Obs::Deque(ObservableVecDeque::new()),
            Kind::Map => Obs::Map(ObservableHashMap::new()),
            Kind::Set => Obs::Set(ObservableHashSet::new()),
            Kind::List => Obs::List(ObservableList::new()),
        }
    }

    /// Builds the collection from existing contents through its From impl.
    pub fn from_init(kind: Kind, init: &[u8]) -> Self {
        match kind {
            Kind::Vec => Obs::Vec(ObservableVec::from(init.to_vec())),
            Kind::Deque => Obs::Deque(ObservableVecDeque::from(init.iter().copied().collect::<VecDeque<_>>())),
            Kind::Map => Obs::Map(ObservableHashMap::from(init.iter().enumerate().map(|(i, x)| (*x, i as u32)).collect::<HashMap<_, _>>())),
            Kind::Set => Obs::Set(ObservableHashSet::from(init.iter().copied().collect::<HashSet<_>>())),
            Kind::List => Obs::List(ObservableList::from(init.to_vec())),
        }
    }

    pub fn len(&self) -> usize {
        match self {
            Obs::Vec(v) => v.len(),
            Obs::Deque(v) => v.len(),
            Obs::Map(v) => v.len(),
            Obs::Set(v) => v.len(),
            Obs::List(v) => v.len(),
        }
    }

    pub fn is_done(&self) -> bool {
        match self {
            Obs::Vec(v) => v.is_done(),
            Obs::Deque(v) => v.is_done(),
            Obs::Map(v) => v.is_done(),
            Obs::Set(v) => v.is_done(),
            Obs::List(v) => v.is_done(),
        }
    }

    pub async fn contents(&self) -> String {
        match self {
            Obs::Vec(v) => format!("{:?}", &**v),
            Obs::Deque(v) => format!("{:?}", v.iter().copied().collect::<Vec<_>>()),
            Obs::Map(v) => format!("{:?}", v.iter().map(|(k, x)| (*k, *x)).collect::<BTreeMap<_, _>>()),
            Obs::Set(v) => format!("{:?}", v.iter().copied().collect::<BTreeSet<_>>()),
            Obs::List(v) => format!("{:?}", &**v.borrow().await),
        }
    }

    /// Applies the operation if it is applicable in the current state; returns whether it was applied.
    pub fn apply(&mut self, op: Op) -> bool {
        if self.is_done() {
            // mutating a collection after done() panics by contract
            return false;
        }
        let len = self.len();
        match (self, op) {
            (Obs::Vec(v), Op::Push(x)) => v.push(x),
            (Obs::Vec(v), Op::Pop) => {
                v.pop();
            }
            (Obs::Vec(v), Op::GetMutWrite(s, x)) => match idx(s, len, false) {
                Some(i) => *v.get_mut(i).unwrap() = x,
                None => {
                    let _ = v.get_mut(len + 1).is_none();
                }
            },
            (Obs::Vec(v), Op::GetMutRead(s)) => {
                if let Some(i) = idx(s, len, false) {
                    let r = v.get_mut(i).unwrap();
                    let _ = *r;
                }
            }
            (Obs::Vec(v), Op::IterMutWrite) => {
                for mut r in v.iter_mut() {
                    *r = (*r + 1) % 3;
                }
            }
            (Obs::Vec(v), Op::IterMutRead) => {
                for r in v.iter_mut() {
                    let _ = *r;
                }
            }
            (Obs::Vec(v), Op::Insert(s, x)) => match idx(s, len, true) {
                Some(i) => v.insert(i, x),
                None => return false,
            },
            (Obs::Vec(v), Op::Remove(s)) => match idx(s, len, false) {
                Some(i) => {
                    v.remove(i);
                }
                None => return false,
            },
            (Obs::Vec(v), Op::SwapRemove(s)) => match idx(s, len, false) {
                Some(i) => {
                    v.swap_remove(i);
                }
                None => return false,
            },
            (Obs::Vec(v), Op::Fill(x)) => v.fill(x),
            (Obs::Vec(v), Op::Resize(n, x)) => v.resize(n as usize, x),
            (Obs::Vec(v), Op::Truncate(n)) => v.truncate(n as usize),
            (Obs::Vec(v), Op::Clear) => v.clear(),
            (Obs::Vec(v), Op::Retain(k)) => v.retain(|x| match k {
                0 => true,
                1 => false,
                _ => x % 2 == 0,
            }),
            (Obs::Vec(v), Op::ShrinkToFit) => v.shrink_to_fit(),
            (Obs::Vec(v), Op::Extend) => v.extend([2u8, 0]),
            (Obs::Vec(v), Op::Done) => v.done(),

            (Obs::Deque(v), Op::Push(x)) => v.push_back(x),
            (Obs::Deque(v), Op::PushFront(x)) => v.push_front(x),
            (Obs::Deque(v), Op::Pop) => {
                v.pop_back();
            }
            (Obs::Deque(v), Op::PopFront) => {
                v.pop_front();
            }
            (Obs::Deque(v), Op::GetMutWrite(s, x)) => {
                if let Some(i) = idx(s, len, false) {
                    *v.get_mut(i).unwrap() = x;
                }
            }
            (Obs::Deque(v), Op::GetMutRead(s)) => {
                if let Some(i) = idx(s, len, false) {
                    let r = v.get_mut(i).unwrap();
                    let _ = *r;
                }
            }
            (Obs::Deque(v), Op::IterMutWrite) => {
                for mut r in v.iter_mut() {
                    *r = (*r + 1) % 3;
                }
            }
            (Obs::Deque(v), Op::IterMutRead) => {
                for r in v.iter_mut() {
                    let _ = *r;
                }
            }
            (Obs::Deque(v), Op::Insert(s, x)) => match idx(s, len, true) {
                Some(i) => v.insert(i, x),
                None => return false,
            },
            (Obs::Deque(v), Op::Remove(s)) => {
                let i = idx(s, len, false).unwrap_or(len);
                v.remove(i);
            }
            (Obs::Deque(v), Op::SwapRemove(s)) => {
                let i = idx(s, len, false).unwrap_or(len);
                v.swap_remove_back(i);
            }
            (Obs::Deque(v), Op::SwapRemoveFront(s)) => {
                let i = idx(s, len, false).unwrap_or(len);
                v.swap_remove_front(i);
            }
            (Obs::Deque(v), Op::Resize(n, x)) => v.resize(n as usize, x),
            (Obs::Deque(v), Op::Truncate(n)) => v.truncate(n as usize),
            (Obs::Deque(v), Op::Clear) => v.clear(),
            (Obs::Deque(v), Op::Retain(k)) => v.retain(|x| match k {
                0 => true,
                1 => false,
                _ => x % 2 == 0,
            }),
            (Obs::Deque(v), Op::ShrinkToFit) => v.shrink_to_fit(),
            (Obs::Deque(v), Op::Extend) => v.extend([2u8, 0]),
            (Obs::Deque(v), Op::Done) => v.done(),

            (Obs::Map(m), Op::Insert(k, x)) => {
                m.insert(k, x as u32);
            }
            (Obs::Map(m), Op::Remove(k)) => {
                m.remove(&k);
            }
            (Obs::Map(m), Op::Clear) => m.clear(),
            (Obs::Map(m), Op::Retain(k)) => m.retain(|key, val| match k {
                0 => true,
                1 => false,
                2 => key % 2 == 0,
                _ => {
                    // keeps everything but changes every retained value through the mutable reference
                    *val += 10;
                    true
                }
            }),
            (Obs::Map(m), Op::EntryOrInsert(k, x)) => {
                let _ = m.entry(k).or_insert(x as u32);
            }
            (Obs::Map(m), Op::EntryOrInsertWrite(k, x)) => {
                let mut r = m.entry(k).or_insert(x as u32);
                *r += 5;
            }
            (Obs::Map(m), Op::EntryAndModify(k)) => {
                let _ = m.entry(k).and_modify(|v| *v += 1).or_insert(7);
            }
            (Obs::Map(m), Op::EntryRemove(k)) => {
                if let remoc::robs::hash_map::Entry::Occupied(o) = m.entry(k) {
                    o.remove();
                }
            }
            (Obs::Map(m), Op::EntryInsert(k, x)) => match m.entry(k) {
                remoc::robs::hash_map::Entry::Occupied(mut o) => {
                    o.insert(x as u32);
                }
                remoc::robs::hash_map::Entry::Vacant(vac) => {
                    let _ = vac.insert(x as u32);
                }
            },
            (Obs::Map(m), Op::GetMutWrite(k, x)) => {
                if let Some(mut r) = m.get_mut(&k) {
                    *r = x as u32 + 20;
                }
            }
            (Obs::Map(m), Op::GetMutRead(k)) => {
                if let Some(r) = m.get_mut(&k) {
                    let _ = *r;
                }
            }
            (Obs::Map(m), Op::IterMutWrite) => {
                for mut v in m.iter_mut() {
                    *v += 1;
                }
            }
            (Obs::Map(m), Op::IterMutRead) => {
                for v in m.iter_mut() {
                    let _ = *v;
                }
            }
            (Obs::Map(m), Op::ShrinkToFit) => m.shrink_to_fit(),
            (Obs::Map(m), Op::Extend) => m.extend([(0u8, 30u32), (2, 31)]),
            (Obs::Map(m), Op::Done) => m.done(),

            (Obs::Set(s), Op::Insert(k, _)) => {
                s.insert(k);
            }
            (Obs::Set(s), Op::Replace(k)) => {
                s.replace(k);
            }
            (Obs::Set(s), Op::Remove(k)) => {
                s.remove(&k);
            }
            (Obs::Set(s), Op::Take(k)) => {
                s.take(&k);
            }
            (Obs::Set(s), Op::Clear) => s.clear(),
            (Obs::Set(s), Op::Retain(k)) => s.retain(|x| match k {
                0 => true,
                1 => false,
                _ => x % 2 == 0,
            }),
            (Obs::Set(s), Op::ShrinkToFit) => s.shrink_to_fit(),
            (Obs::Set(s), Op::Extend) => s.extend([2u8, 0]),
            (Obs::Set(s), Op::Done) => s.done(),

            (Obs::List(l), Op::Push(x)) => l.push(x),
            (Obs::List(l), Op::Extend) => l.extend([2u8, 0]),
            (Obs::List(l), Op::Done) => l.done(),
            _ => return false,
        }
        true
    }

    pub fn subscribe(&self, incremental: bool) -> Sub {
        match (self, incremental) {
            (Obs::Vec(v), false) => Sub::Vec(v.subscribe(1024)),
            (Obs::Vec(v), true) => Sub::Vec(v.subscribe_incremental(1024)),
            (Obs::Deque(v), false) => Sub::Deque(v.subscribe(1024)),
            (Obs::Deque(v), true) => Sub::Deque(v.subscribe_incremental(1024)),
            (Obs::Map(v), false) => Sub::Map(v.subscribe(1024)),
            (Obs::Map(v), true) => Sub::Map(v.subscribe_incremental(1024)),
            (Obs::Set(v), false) => Sub::Set(v.subscribe(1024)),
            (Obs::Set(v), true) => Sub::Set(v.subscribe_incremental(1024)),
            (Obs::List(v), _) => Sub::List(v.subscribe()),
        }
    }
}

#[derive(Serialize, Deserialize)]
pub enum Sub {
    Vec(VecSubscription<u8, C>),
    Deque(VecDequeSubscription<u8, C>),
    Map(HashMapSubscription<u8, u32, C>),
    Set(HashSetSubscription<u8, C>),
    List(ListSubscription<u8, C>),
}

/// What a consumer ended with.
#[derive(Debug, Clone, Default)]
pub struct Seen {
    pub contents: Option<String>,
    pub complete: bool,
    pub done: bool,
    pub error: Option<String>,
    pub detached: Option<String>,
}

pub enum Mirror {
    Vec(remoc::robs::vec::MirroredVec<u8, C>),
    Deque(remoc::robs::vec_deque::MirroredVecDeque<u8, C>),
    Map(remoc::robs::hash_map::MirroredHashMap<u8, u32, C>),
    Set(remoc::robs::hash_set::MirroredHashSet<u8, C>),
    List(remoc::robs::list::MirroredList<u8>),
}

/// s.recv(), optionally with every recv future dropped at its p-th poll and retried (at most 60 times in a row).
macro_rules! recv_maybe_cancelled {
    ($s:expr, $p:expr) => {{
        let mut tries = 0u32;
        loop {
            match $p {
                Some(p) if tries < 60 => match crate::util::cancel_at($s.recv(), p).await {
                    crate::util::Cancelled::Done(r) => break r,
                    crate::util::Cancelled::Cancelled(_) => tries += 1,
                },
                _ => break $s.recv().await,
            }
        }
    }};
}

impl Sub {
    pub fn mirror(self, max_size: usize) -> Mirror {
        match self {
            Sub::Vec(s) => Mirror::Vec(s.mirror(max_size)),
            Sub::Deque(s) => Mirror::Deque(s.mirror(max_size)),
            Sub::Map(s) => Mirror::Map(s.mirror(max_size)),
            Sub::Set(s) => Mirror::Set(s.mirror(max_size)),
            Sub::List(s) => Mirror::List(s.mirror(max_size)),
        }
    }

    /// Consumes the event stream by hand onto a plain collection until it ends.
    pub async fn by_hand(self) -> Seen {
        self.by_hand_opts(None, None).await
    }

    pub async fn by_hand_traced(self, trace: Option<crate::util::Shared<Vec<String>>>) -> Seen {
        self.by_hand_opts(trace, None).await
    }

    /// Like by_hand; additionally records the replica's state before every recv once the initial value is complete.
    /// `cancel`: every recv() future is dropped at its p-th poll and recv() is called again (an event loop
    /// with a timeout or select around recv()).
    pub async fn by_hand_opts(self, trace: Option<crate::util::Shared<Vec<String>>>, cancel: Option<u32>) -> Seen {
        let mut seen = Seen::default();
        match self {
            Sub::Vec(mut s) => {
                let mut v: Vec<u8> = s.take_initial().unwrap_or_default();
                loop {
                    if let Some(t) = &trace {
                        if seen.complete || s.is_complete() {
                            t.lock().unwrap().push(format!("{v:?}"));
                        }
                    }
                    match recv_maybe_cancelled!(s, cancel) {
                        Ok(Some(e)) => match e {
                            VecEvent::Push(x) => v.push(x),
                            VecEvent::Pop => {
                                v.pop();
                            }
                            VecEvent::Insert(i, x) => {
                                if i <= v.len() {
                                    v.insert(i, x)
                                } else {
                                    seen.error = Some(format!("event Insert({i}) does not apply to {v:?}"));
                                    break;
                                }
                            }
                            VecEvent::Set(i, x) => {
                                if i < v.len() {
                                    v[i] = x
                                } else {
                                    seen.error = Some(format!("event Set({i}) does not apply to {v:?}"));
                                    break;
                                }
                            }
                            VecEvent::Remove(i) => {
                                if i < v.len() {
                                    v.remove(i);
                                } else {
                                    seen.error = Some(format!("event Remove({i}) does not apply to {v:?}"));
                                    break;
                                }
                            }
                            VecEvent::SwapRemove(i) => {
                                if i < v.len() {
                                    v.swap_remove(i);
                                } else {
                                    seen.error = Some(format!("event SwapRemove({i}) does not apply to {v:?}"));
                                    break;
                                }
                            }
                            VecEvent::Fill(x) => v.fill(x),
                            VecEvent::Resize(n, x) => v.resize(n, x),
                            VecEvent::Truncate(n) => v.truncate(n),
                            VecEvent::Retain(keep) => {
                                let mut pos = 0;
                                v.retain(|_| {
                                    let k = keep.contains(&pos);
                                    pos += 1;
                                    k
                                });
                            }
                            VecEvent::RetainNot(rm) => {
                                let mut pos = 0;
                                v.retain(|_| {
                                    let k = !rm.contains(&pos);
                                    pos += 1;
                                    k
                                });
                            }
                            VecEvent::Clear => v.clear(),
                            VecEvent::ShrinkToFit => {}
                            VecEvent::Done => seen.done = true,
                            VecEvent::InitialComplete => seen.complete = true,
                            #[allow(unreachable_patterns)]
                            _ => {}
                        },
                        Ok(None) => break,
                        Err(e) => {
                            seen.error = Some(format!("{e:?}"));
                            break;
                        }
                    }
                }
                seen.complete |= s.is_complete();
                seen.contents = Some(format!("{v:?}"));
            }
            Sub::Deque(mut s) => {
                let mut v: VecDeque<u8> = s.take_initial().unwrap_or_default();
                loop {
                    if let Some(t) = &trace {
                        if seen.complete || s.is_complete() {
                            t.lock().unwrap().push(format!("{:?}", v.iter().copied().collect::<Vec<_>>()));
                        }
                    }
                    match recv_maybe_cancelled!(s, cancel) {
                        Ok(Some(e)) => match e {
                            VecDequeEvent::PushBack(x) => v.push_back(x),
                            VecDequeEvent::PushFront(x) => v.push_front(x),
                            VecDequeEvent::PopBack => {
                                v.pop_back();
                            }
                            VecDequeEvent::PopFront => {
                                v.pop_front();
                            }
                            VecDequeEvent::Insert(i, x) => {
                                if i <= v.len() {
                                    v.insert(i, x)
                                } else {
                                    seen.error = Some(format!("event Insert({i}) does not apply to {v:?}"));
                                    break;
                                }
                            }
                            VecDequeEvent::Set(i, x) => {
                                if i < v.len() {
                                    v[i] = x
                                } else {
                                    seen.error = Some(format!("event Set({i}) does not apply to {v:?}"));
                                    break;
                                }
                            }
                            VecDequeEvent::Remove(i) => {
                                v.remove(i);
                            }
                            VecDequeEvent::SwapRemoveBack(i) => {
                                v.swap_remove_back(i);
                            }
                            VecDequeEvent::SwapRemoveFront(i) => {
                                v.swap_remove_front(i);
                            }
                            VecDequeEvent::Resize(n, x) => v.resize(n, x),
                            VecDequeEvent::Truncate(n) => v.truncate(n),
                            VecDequeEvent::Retain(keep) => {
                                let mut pos = 0;
                                v.retain(|_| {
                                    let k = keep.contains(&pos);
                                    pos += 1;
                                    k
                                });
                            }
                            VecDequeEvent::RetainNot(rm) => {
                                let mut pos = 0;
                                v.retain(|_| {
                                    let k = !rm.contains(&pos);
                                    pos += 1;
                                    k
                                });
                            }
                            VecDequeEvent::Clear => v.clear(),
                            VecDequeEvent::ShrinkToFit => {}
                            VecDequeEvent::Done => seen.done = true,
                            VecDequeEvent::InitialComplete => seen.complete = true,
                            #[allow(unreachable_patterns)]
                            _ => {}
                        },
                        Ok(None) => break,
                        Err(e) => {
                            seen.error = Some(format!("{e:?}"));
                            break;
                        }
                    }
                }
                seen.complete |= s.is_complete();
                seen.contents = Some(format!("{:?}", v.iter().copied().collect::<Vec<_>>()));
            }
            Sub::Map(mut s) => {
                let mut m: HashMap<u8, u32> = s.take_initial().unwrap_or_default();
                loop {
                    if let Some(t) = &trace {
                        if seen.complete || s.is_complete() {
                            t.lock().unwrap().push(format!("{:?}", m.iter().map(|(k, x)| (*k, *x)).collect::<BTreeMap<_, _>>()));
                        }
                    }
                    match recv_maybe_cancelled!(s, cancel) {
                        Ok(Some(e)) => match e {
                            HashMapEvent::Set(k, x) => {
                                m.insert(k, x);
                            }
                            HashMapEvent::Remove(k) => {
                                m.remove(&k);
                            }
                            HashMapEvent::Clear => m.clear(),
                            HashMapEvent::ShrinkToFit => {}
                            HashMapEvent::Done => seen.done = true,
                            HashMapEvent::InitialComplete => seen.complete = true,
                            #[allow(unreachable_patterns)]
                            _ => {}
                        },
                        Ok(None) => break,
                        Err(e) => {
                            seen.error = Some(format!("{e:?}"));
                            break;
                        }
                    }
                }
                seen.complete |= s.is_complete();
                seen.contents = Some(format!("{:?}", m.into_iter().collect::<BTreeMap<_, _>>()));
            }
            Sub::Set(mut s) => {
                let mut m: HashSet<u8> = s.take_initial().unwrap_or_default();
                loop {
                    if let Some(t) = &trace {
                        if seen.complete || s.is_complete() {
                            t.lock().unwrap().push(format!("{:?}", m.iter().copied().collect::<BTreeSet<_>>()));
                        }
                    }
                    match recv_maybe_cancelled!(s, cancel) {
                        Ok(Some(e)) => match e {
                            HashSetEvent::Set(k) => {
                                m.insert(k);
                            }
                            HashSetEvent::Remove(k) => {
                                m.remove(&k);
                            }
                            HashSetEvent::Clear => m.clear(),
                            HashSetEvent::ShrinkToFit => {}
                            HashSetEvent::Done => seen.done = true,
                            HashSetEvent::InitialComplete => seen.complete = true,
                            #[allow(unreachable_patterns)]
                            _ => {}
                        },
                        Ok(None) => break,
                        Err(e) => {
                            seen.error = Some(format!("{e:?}"));
                            break;
                        }
                    }
                }
                seen.complete |= s.is_complete();
                seen.contents = Some(format!("{:?}", m.into_iter().collect::<BTreeSet<_>>()));
            }
            Sub::List(mut s) => {
                let mut v: Vec<u8> = Vec::new();
                loop {
                    if let Some(t) = &trace {
                        if seen.complete || s.is_complete() {
                            t.lock().unwrap().push(format!("{v:?}"));
                        }
                    }
                    match recv_maybe_cancelled!(s, cancel) {
                        Ok(Some(remoc::robs::list::ListEvent::Push(x))) => v.push(x),
                        Ok(Some(remoc::robs::list::ListEvent::Done)) => seen.done = true,
                        Ok(Some(_)) => seen.complete = true,
                        Ok(None) => break,
                        Err(e) => {
                            seen.error = Some(format!("{e:?}"));
                            break;
                        }
                    }
                }
                seen.complete |= s.is_complete();
                seen.contents = Some(format!("{v:?}"));
            }
        }
        seen
    }
}

impl Mirror {
    pub async fn look(&self) -> Seen {
        let mut seen = Seen::default();
        macro_rules! look {
            ($m:expr, $fmt:expr) => {
                match $m.borrow().await {
                    Ok(r) => {
                        seen.complete = r.is_complete();
                        seen.done = r.is_done();
                        seen.contents = Some($fmt(&*r));
                    }
                    Err(e) => seen.error = Some(format!("{e:?}")),
                }
            };
        }
        match self {
            Mirror::Vec(m) => look!(m, |v: &Vec<u8>| format!("{v:?}")),
            Mirror::Deque(m) => look!(m, |v: &VecDeque<u8>| format!("{:?}", v.iter().copied().collect::<Vec<_>>())),
            Mirror::Map(m) => look!(m, |v: &HashMap<u8, u32>| format!("{:?}", v.iter().map(|(k, x)| (*k, *x)).collect::<BTreeMap<_, _>>())),
            Mirror::Set(m) => look!(m, |v: &HashSet<u8>| format!("{:?}", v.iter().copied().collect::<BTreeSet<_>>())),
            Mirror::List(m) => look!(m, |v: &Vec<u8>| format!("{v:?}")),
        }
        seen
    }

    /// Subscription taken from the mirror itself (a second-level mirror can be fed from it).
    pub async fn resubscribe(&self, incremental: bool) -> Option<Result<Sub, String>> {
        macro_rules! resub {
            ($m:expr, $v:path) => {
                Some(if incremental { $m.subscribe_incremental(1024).await.map($v).map_err(|e| format!("{e:?}")) } else { $m.subscribe(1024).await.map($v).map_err(|e| format!("{e:?}")) })
            };
        }
        match self {
            Mirror::Vec(m) => resub!(m, Sub::Vec),
            Mirror::Deque(m) => resub!(m, Sub::Deque),
            Mirror::Map(m) => resub!(m, Sub::Map),
            Mirror::Set(m) => resub!(m, Sub::Set),
            Mirror::List(_) => None,
        }
    }

    pub async fn detach(self) -> String {
        match self {
            Mirror::Vec(m) => format!("{:?}", m.detach().await),
            Mirror::Deque(m) => format!("{:?}", m.detach().await.into_iter().collect::<Vec<_>>()),
            Mirror::Map(m) => format!("{:?}", m.detach().await.into_iter().collect::<BTreeMap<_, _>>()),
            Mirror::Set(m) => format!("{:?}", m.detach().await.into_iter().collect::<BTreeSet<_>>()),
            Mirror::List(m) => format!("{:?}", m.detach().await),
        }
    }
}

pub struct SeqScenario {
    pub kind: Kind,
    /// initial contents (applied as pushes / inserts before anything is subscribed)
    pub init: Vec<u8>,
    pub ops: Vec<Op>,
    /// also mirror on a remote endpoint
    pub remote: bool,
    /// drop the collection right after the last operation (only used when that is done())
    pub early_drop: bool,
    /// explore delivery schedules
    pub sched: bool,
}

#[derive(Default)]
struct SObs {
    err: Option<String>,
    /// (label, seen at quiescence, observable contents at quiescence, observable done)
    mirrors: Vec<(String, Seen)>,
    hands: Vec<(String, Seen)>,
    final_contents: String,
    final_done: bool,
    applied: Vec<bool>,
}

impl Scenario for SeqScenario {
    fn id(&self) -> String {
        format!("c13/{:?}/{:?}/{:?}/r{}d{}s{}", self.kind, self.init, self.ops, self.remote as u8, self.early_drop as u8, self.sched as u8)
    }

    fn start(&self, env: Env) -> (BoxFuture<'static, ()>, Judge) {
        let obs = shared(SObs::default());
        let (kind, init, ops, remote) = (self.kind, self.init.clone(), self.ops.clone(), self.remote);
        let (early_drop, sched) = (self.early_drop, self.sched);
        let (init_j, ops_j) = (init.clone(), ops.clone());
        let o2 = obs.clone();
        let root = async move {
            env.explore(false);
            let mut ship = None;
            let mut keep = None;
            if remote {
                let link = LinkOpts { capacity: 4, deliver_cap: 4, eof_on_drop: false };
                match base_pair::<(String, Sub), (String, Sub), (), ()>(&env, carrier_cfg(), carrier_cfg(), link).await {
                    Ok(((a_tx, a_rx, k1, k2), (b_tx, mut b_rx, k3, k4))) => {
                        // remote side: mirror every subscription it receives and report at the end
                        let o3 = o2.clone();
                        let (stop_tx, mut stop_rx) = tokio::sync::watch::channel(false);
                        let h = env.spawn("remote-mirrors", 2, async move {
                            let mut ms: Vec<(String, Mirror)> = Vec::new();
                            loop {
                                tokio::select! {
                                    r = b_rx.recv() => match r {
                                        Ok(Some((label, sub))) => ms.push((label, sub.mirror(1000))),
                                        _ => break,
                                    },
                                    _ = stop_rx.changed() => break,
                                }
                            }
                            for (label, m) in &ms {
                                let seen = m.look().await;
                                o3.lock().unwrap().mirrors.push((label.clone(), seen));
                            }
                            (ms, b_rx)
                        });
                        ship = Some((a_tx, stop_tx, h));
                        keep = Some((a_rx, k1, k2, b_tx, k3, k4));
                    }
                    Err(e) => {
                        o2.lock().unwrap().err = Some(e);
                        return;
                    }
                }
            }
            let mut c = if init.is_empty() { Obs::new(kind) } else { Obs::from_init(kind, &init) };
            env.explore(sched);
            let mut mirrors: Vec<(String, Mirror)> = Vec::new();
            let mut hands = Vec::new();
            let n = ops.len();
            for j in 0..=n {
                for inc in [false, true] {
                    if kind == Kind::List && inc {
                        continue;
                    }
                    let label = format!("pos{j}/{}", if inc { "incremental" } else { "snapshot" });
                    let m = c.subscribe(inc).mirror(1000);
                    // second-level mirrors fed by the mirror's own subscriptions
                    if !sched || j == 0 {
                        for inc2 in [false, true] {
                            match m.resubscribe(inc2).await {
                                Some(Ok(sub2)) => mirrors.push((format!("{label}/mirror-of-mirror-{}", if inc2 { "incremental" } else { "snapshot" }), sub2.mirror(1000))),
                                Some(Err(e)) => o2.lock().unwrap().err = Some(format!("{label}: subscribing to the mirror failed: {e}")),
                                None => {}
                            }
                        }
                    }
                    mirrors.push((format!("{label}/mirror"), m));
                    let sub = c.subscribe(inc);
                    hands.push((format!("{label}/hand"), env.spawn("hand", 1, sub.by_hand())));
                    for p in [1u32, 2] {
                        let sub = c.subscribe(inc);
                        hands.push((format!("{label}/hand-cancel{p}"), env.spawn("hand", 1, sub.by_hand_opts(None, Some(p)))));
                    }
                    if let Some((tx, _, _)) = ship.as_mut() {
                        if let Err(e) = tx.send((format!("{label}/remote-mirror"), c.subscribe(inc))).await {
                            o2.lock().unwrap().err = Some(format!("ship: {e}"));
                        }
                    }
                }
                if j < n {
                    let applied = c.apply(ops[j]);
                    o2.lock().unwrap().applied.push(applied);
                }
            }
            if !early_drop {
                env.quiesce().await;
            }
            {
                let contents = c.contents().await;
                let mut o = o2.lock().unwrap();
                o.final_contents = contents;
                o.final_done = c.is_done();
            }
            let c = if early_drop {
                drop(c);
                env.quiesce().await;
                None
            } else {
                Some(c)
            };
            env.explore(false);
            for (label, m) in &mirrors {
                let seen = m.look().await;
                o2.lock().unwrap().mirrors.push((label.clone(), seen));
            }
            if let Some((tx, stop_tx, h)) = ship.take() {
                let _ = stop_tx.send(true);
                let _ = h.await;
                drop(tx);
            }
            // detach returns the contents
            for (label, m) in mirrors {
                let d = m.detach().await;
                let mut o = o2.lock().unwrap();
                if let Some(x) = o.mirrors.iter_mut().find(|x| x.0 == label) {
                    x.1.detached = Some(d);
                }
            }
            // end of the observed collection: the hand consumers finish
            drop(c);
            for (label, h) in hands {
                match tokio::time::timeout(Duration::from_secs(30), h).await {
                    Ok(Ok(seen)) => o2.lock().unwrap().hands.push((label, seen)),
                    _ => o2.lock().unwrap().hands.push((label, Seen { error: Some("hang".into()), ..Default::default() })),
                }
            }
            drop(keep);
        };
        let judge: Judge = Box::new(move |out: &Outcome| {
            let (init, ops) = (&init_j, &ops_j);
            let o = obs.lock().unwrap();
            let mut v = Verdict::default();
            v.findings.extend(panic_findings(out, "C13"));
            if let Some(e) = &o.err {
                v.fail("C13", "setup-failed", e.clone());
            } else if out.ending != Ending::Completed {
                v.fail("C13", "mirror-scenario-stuck", format!("{:?}", out.ending));
            } else {
                // labels of all consumers whose contents differ, to attribute the difference to one operation
                let differing: Vec<String> = o
                    .mirrors
                    .iter()
                    .chain(o.hands.iter())
                    .filter(|(_, s)| s.contents.as_ref().is_some_and(|c| *c != o.final_contents))
                    .map(|(l, _)| l.clone())
                    .collect();
                let last_op = ops.iter().zip(o.applied.iter()).filter(|(_, a)| **a).map(|(op, _)| *op).last();
                for (label, s) in &o.mirrors {
                    match (&s.contents, &s.error) {
                        (Some(c), None) => {
                            if *c != o.final_contents {
                                v.fail(
                                    "C13",
                                    format!("mirror-differs:{kind:?}:{}", culprit(label, ops, &differing)),
                                    format!("{label}: mirror holds {c} but the observed {kind:?} holds {} after init {init:?} ops {ops:?} (applied {:?})", o.final_contents, o.applied),
                                );
                            }
                            if s.done != o.final_done {
                                v.fail("C13", format!("mirror-done-flag:{kind:?}"), format!("{label}: mirror is_done {} but collection done {}", s.done, o.final_done));
                            }
                            if !s.complete {
                                v.fail("C13", format!("mirror-not-complete:{kind:?}"), format!("{label}: is_complete false at quiescence"));
                            }
                            if let Some(d) = &s.detached {
                                if d != c {
                                    v.fail("C13", format!("detach-differs:{kind:?}"), format!("{label}: detach returned {d}, borrow showed {c}"));
                                }
                            }
                        }
                        (_, Some(e)) => v.fail("C13", format!("mirror-error:{kind:?}"), format!("{label}: {e} (ops {ops:?}, last applied {last_op:?})")),
                        _ => v.fail("C13", "mirror-no-result", label.clone()),
                    }
                }
                for (label, s) in &o.hands {
                    match &s.contents {
                        Some(c) => {
                            if *c != o.final_contents {
                                v.fail(
                                    "C13",
                                    format!("events-by-hand-differ:{kind:?}:{}", culprit(label, ops, &differing)),
                                    format!("{label}: replaying the events gives {c} but the observed {kind:?} holds {} after init {init:?} ops {ops:?}; error {:?}", o.final_contents, s.error),
                                );
                            }
                            if s.done != o.final_done {
                                v.fail("C13", format!("events-done-flag:{kind:?}"), format!("{label}: Done event seen {} but collection done {}", s.done, o.final_done));
                            }
                            // without done() the stream must end with Closed when the collection is dropped
                            if !o.final_done && s.error.as_deref() != Some("Closed") {
                                v.fail("C13", format!("events-end:{kind:?}"), format!("{label}: stream of a collection dropped without done() ended with {:?}", s.error));
                            }
                            if o.final_done && s.error.is_some() {
                                v.fail("C13", format!("events-error:{kind:?}"), format!("{label}: {:?}", s.error));
                            }
                        }
                        None => v.fail("C13", format!("events-by-hand-failed:{kind:?}"), format!("{label}: {:?}", s.error)),
                    }
                }
                let expected = (ops.len() + 1) * if kind == Kind::List { 1 } else { 2 };
                if o.mirrors.len() < expected * if remote { 2 } else { 1 } || o.hands.len() < expected {
                    v.fail("C13", "consumer-missing", format!("{} mirrors, {} hand consumers, expected {expected}", o.mirrors.len(), o.hands.len()));
                }
            }
            v.outcome = format!("{}|{}|{:?}", o.final_contents, o.final_done, o.applied);
            v.nontrivial = o.applied.iter().any(|a| *a);
            v
        });
        (Box::pin(root), judge)
    }
}

/// Attributes a differing consumer to the operation that broke it: consumers of the same kind and
/// mode subscribed at every position, so the last position whose consumer differs names the
/// operation applied right after it ("subscribe" if the consumer subscribed after all operations).
fn culprit(label: &str, ops: &[Op], differing: &[String]) -> String {
    let mut parts = label.splitn(2, '/');
    let _pos = parts.next();
    let series = parts.next().unwrap_or("");
    let last = differing
        .iter()
        .filter(|l| l.splitn(2, '/').nth(1) == Some(series))
        .filter_map(|l| l.trim_start_matches("pos").split('/').next().and_then(|p| p.parse::<usize>().ok()))
        .max()
        .unwrap_or(0);
    let mode = if series.starts_with("incremental") { "incremental" } else { "snapshot" };
    match ops.get(last) {
        Some(op) => {
            let n = format!("{op:?}");
            match op {
                Op::Retain(k) => format!("Retain{k}"),
                _ => n.split('(').next().unwrap_or("").to_string(),
            }
        }
        None => format!("subscribe-{mode}-at-end"),
    }
}

fn sequences(kind: Kind, depth: usize) -> Vec<Vec<Op>> {
    let alphabet = ops_of(kind);
    let mut out: Vec<Vec<Op>> = vec![vec![]];
    for _ in 0..depth {
        let mut next = Vec::new();
        for s in &out {
            // nothing may follow Done (mutating afterwards panics by contract)
            if s.last() == Some(&Op::Done) {
                continue;
            }
            for op in &alphabet {
                let mut t = s.clone();
                t.push(*op);
                next.push(t);
            }
        }
        out = next;
    }
    out
}

fn states(max_len: usize) -> Vec<Vec<u8>> {
    let mut out: Vec<Vec<u8>> = vec![vec![]];
    let mut cur: Vec<Vec<u8>> = vec![vec![]];
    for _ in 0..max_len {
        let mut next = Vec::new();
        for s in &cur {
            for x in 0..3u8 {
                let mut t = s.clone();
                t.push(x);
                next.push(t);
            }
        }
        out.extend(next.clone());
        cur = next;
    }
    out
}

fn scn(kind: Kind, init: &[u8], ops: Vec<Op>, remote: bool, early_drop: bool, sched: bool) -> Arc<dyn Scenario> {
    Arc::new(SeqScenario { kind, init: init.to_vec(), ops, remote, early_drop, sched })
}

pub const KINDS: [Kind; 5] = [Kind::Vec, Kind::Deque, Kind::Map, Kind::Set, Kind::List];

pub fn grid(tier: Tier) -> Vec<Arc<dyn Scenario>> {
    let mut out: Vec<Arc<dyn Scenario>> = Vec::new();
    let q = tier == Tier::Quick;
    for kind in KINDS {
        // from the empty collection
        let depth = match (kind, q) {
            (Kind::List, _) => 4,
            (Kind::Set, true) => 3,
            (Kind::Set, false) => 4,
            (_, true) => 2,
            (_, false) => 3,
        };
        for d in 0..=depth {
            for ops in sequences(kind, d) {
                // done() followed immediately by dropping the collection
                if ops.last() == Some(&Op::Done) {
                    out.push(scn(kind, &[], ops.clone(), false, true, false));
                    if d <= 2 {
                        out.push(scn(kind, &[], ops.clone(), true, true, false));
                    }
                }
                if d == depth || ops.last() == Some(&Op::Done) {
                    out.push(scn(kind, &[], ops, false, false, false));
                }
            }
        }
        // from every canonical content state (built through the From impl)
        let (slen, sdepth) = if q { (2, 2) } else { (3, 3) };
        for init in states(slen) {
            if init.is_empty() {
                continue;
            }
            // sets and maps: states with duplicate keys collapse
            if matches!(kind, Kind::Set | Kind::Map) && init.iter().collect::<BTreeSet<_>>().len() != init.len() {
                continue;
            }
            let depth = if init.len() >= 3 { sdepth.min(2) } else { sdepth };
            for d in 1..=depth {
                for ops in sequences(kind, d) {
                    if ops.last() == Some(&Op::Done) {
                        out.push(scn(kind, &init, ops.clone(), false, true, false));
                    }
                    if d == depth || ops.last() == Some(&Op::Done) {
                        out.push(scn(kind, &init, ops, false, false, false));
                    }
                }
            }
        }
        // remote mirrors
        let rdepth = if q { 1 } else { 2 };
        for init in [vec![], vec![1u8, 2]] {
            for ops in sequences(kind, rdepth) {
                out.push(scn(kind, &init, ops, true, false, false));
            }
        }
    }
    out
}

/// Representative sequences whose delivery schedules are explored.
pub fn sched_core(tier: Tier) -> Vec<Arc<dyn Scenario>> {
    use Op::*;
    let mut out: Vec<Arc<dyn Scenario>> = Vec::new();
    let cases: Vec<(Kind, Vec<u8>, Vec<Op>)> = vec![
        (Kind::Vec, vec![1, 2], vec![Insert(0, 2), Done]),
        (Kind::Vec, vec![1], vec![Push(0), Remove(0)]),
        (Kind::Deque, vec![1, 2], vec![PushFront(0), Done]),
        (Kind::Map, vec![0, 1], vec![Remove(0), Done]),
        (Kind::Set, vec![0], vec![Insert(1, 0), Done]),
        (Kind::List, vec![1], vec![Push(0), Done]),
        (Kind::List, vec![], vec![Push(0), Push(1)]),
    ];
    for (kind, init, ops) in cases {
        for remote in [false, true] {
            for early in [false, true] {
                if early && ops.last() != Some(&Done) {
                    continue;
                }
                if tier == Tier::Quick && remote && early {
                    continue;
                }
                out.push(scn(kind, &init, ops.clone(), remote, early, true));
            }
        }
    }
    out
}

pub fn all_scenarios(tier: Tier) -> Vec<Arc<dyn Scenario>> {
    let mut v = grid(tier);
    v.extend(sched_core(tier));
    v
}

pub fn run(tier: Tier, seed: u64) -> i32 {
    let mut rep = Report::new("C13", tier, seed);
    let known = known_sigs("C13");
    let q = tier == Tier::Quick;
    let p0 = Params { max_dev: 0, seeds: vec![seed], time_limit: Duration::from_secs(if q { 30 } else { 1500 }), determinism_every: 257, ..Default::default() };
    let g = grid(tier);
    rep.extra.insert("operation_sequences".into(), serde_json::json!(g.len()));
    rep.add("all operation sequences up to the depth bound, from the empty collection and from every content state, subscriptions at every position in both modes, consumed by mirror(), by mirrors of the mirror, by hand and by a remote mirror; done() followed by an immediate drop", explore("C13", g, p0, &known));
    let p1 = Params { max_dev: if q { 1 } else { 2 }, preempt: true, seeds: vec![seed], time_limit: Duration::from_secs(if q { 20 } else { 1500 }), determinism_every: 101, ..Default::default() };
    rep.add("delivery schedules of representative sequences (local and remote consumers, done+drop)", explore("C13", sched_core(tier), p1, &known));
    rep.rule = "a case = (collection type, initial contents over {0,1,2} of length <= 2/3 built through From, operation sequence of depth <= 2/3 (sets 3/4, lists 4) over the full mutating API incl. get_mut / iter_mut with and without writing, entry API, retain keep-all/none/some and (maps) a predicate that mutates a retained value, resize growing and shrinking, swap_remove, extend, no-op cases, done); in every execution a subscription is taken before each operation in snapshot and incremental mode and consumed by a local mirror, by two mirrors subscribed to that mirror, by hand, and (depth <= 1/2) by a mirror on a remote endpoint; sequences ending in done() are also run with the collection dropped immediately afterwards; distinct = distinct (final contents, done, applied flags); non-trivial = at least one operation was applicable. Second part: schedules (task choice and budget preemption, <= 1/2 deviations) of 7 representative sequences.".into();
    rep.assumptions = vec![
        "event buffers are large enough that no subscriber lags (lag is C14's subject)".into(),
        "contents are compared canonically (maps and sets sorted)".into(),
        "state-based restart is sound because every mutator's behaviour is a function of (contents, done)".into(),
        "differences are attributed to one operation (signature) by the last subscription position whose consumer differs".into(),
    ];
    rep.finish()
}
