//! Stateless, deviation-bounded exploration of scenario executions on a pool of worker threads.

use std::{
    collections::{BTreeMap, BinaryHeap, HashSet},
    hash::{Hash, Hasher},
    sync::{
        Arc, Condvar, Mutex,
        atomic::{AtomicBool, AtomicU64, Ordering},
    },
    time::{Duration, Instant},
};

use crate::{
    sched::{Deviation, StepRec},
    world::{Ending, Finding, Outcome, Scenario, Verdict, execute},
};

#[derive(Clone)]
pub struct Params {
    /// Maximum number of deviations (task switches + preemptions) per execution.
    pub max_dev: u32,
    /// Explore budget preemptions in addition to task choices.
    pub preempt: bool,
    /// Maximum preemption points tried per poll.
    pub preempt_cap: u8,
    /// Wall-clock limit for this exploration.
    pub time_limit: Duration,
    /// Execution cap.
    pub max_execs: u64,
    /// Seeds for un-biased `select!`.
    pub seeds: Vec<u64>,
    pub threads: usize,
    /// Run every n-th execution twice and compare (0 = never).
    pub determinism_every: u64,
}

impl Default for Params {
    fn default() -> Self {
        Self {
            max_dev: 1,
            preempt: true,
            preempt_cap: 6,
            time_limit: Duration::from_secs(40),
            max_execs: u64::MAX,
            seeds: vec![1],
            threads: std::thread::available_parallelism().map(|n| n.get()).unwrap_or(4),
            determinism_every: 64,
        }
    }
}

#[derive(Debug, Clone)]
pub struct ViolationRec {
    pub finding: Finding,
    pub scenario: String,
    pub seed: u64,
    pub deviations: Vec<Deviation>,
    pub schedule: Vec<String>,
    pub ending: String,
}

#[derive(Default)]
pub struct Stats {
    pub executions: u64,
    pub steps: u64,
    pub decision_nodes: u64,
    pub max_choice_points: u32,
    pub outcomes: HashSet<u64>,
    pub nontrivial_outcomes: HashSet<u64>,
    pub nontrivial_execs: u64,
    pub execs_per_level: BTreeMap<u32, u64>,
    pub level_completed: Option<u32>,
    pub caps_hit: Vec<String>,
    pub determinism_replays: u64,
    pub machinery_errors: Vec<String>,
    pub violations: Vec<ViolationRec>,
    pub endings: BTreeMap<String, u64>,
    pub samples: Vec<String>,
    pub scenarios: u64,
    pub wire_events: u64,
    pub other_prop_findings: u64,
    pub max_dev: u32,
    pub bounded_parts: u32,
    pub unbounded_parts: u32,
}

impl Stats {
    pub fn merge(&mut self, o: Stats) {
        self.executions += o.executions;
        self.steps += o.steps;
        self.decision_nodes += o.decision_nodes;
        self.max_choice_points = self.max_choice_points.max(o.max_choice_points);
        self.outcomes.extend(o.outcomes);
        self.nontrivial_outcomes.extend(o.nontrivial_outcomes);
        self.nontrivial_execs += o.nontrivial_execs;
        for (k, v) in o.execs_per_level {
            *self.execs_per_level.entry(k).or_default() += v;
        }
        if o.scenarios > 0 && o.max_dev > 0 {
            // part with schedule exploration: the claimed bound is the minimum over such parts
            self.level_completed = if self.bounded_parts == 0 {
                o.level_completed
            } else {
                match (self.level_completed, o.level_completed) {
                    (Some(a), Some(b)) => Some(a.min(b)),
                    _ => None,
                }
            };
            self.bounded_parts += 1;
        } else if o.scenarios > 0 && self.bounded_parts == 0 && self.unbounded_parts == 0 {
            self.level_completed = o.level_completed;
        }
        if o.scenarios > 0 && o.max_dev == 0 {
            self.unbounded_parts += 1;
            if o.level_completed.is_none() && self.bounded_parts == 0 {
                self.level_completed = None;
            }
        }
        self.caps_hit.extend(o.caps_hit);
        self.determinism_replays += o.determinism_replays;
        self.machinery_errors.extend(o.machinery_errors);
        self.violations.extend(o.violations);
        for (k, v) in o.endings {
            *self.endings.entry(k).or_default() += v;
        }
        for s in o.samples {
            if self.samples.len() < 6 {
                self.samples.push(s);
            }
        }
        self.scenarios += o.scenarios;
        self.wire_events += o.wire_events;
        self.other_prop_findings += o.other_prop_findings;
    }
}

fn hash_str(s: &str) -> u64 {
    let mut h = std::collections::hash_map::DefaultHasher::new();
    s.hash(&mut h);
    h.finish()
}

struct Job {
    /// Re-run the parent only to regenerate its trace, then run its last-level children inline.
    expand: bool,
    level: u32,
    scn: usize,
    seed: u64,
    devs: Vec<Deviation>,
    order: u64,
}

impl PartialEq for Job {
    fn eq(&self, o: &Self) -> bool {
        self.level == o.level && self.order == o.order
    }
}
impl Eq for Job {}
impl PartialOrd for Job {
    fn partial_cmp(&self, o: &Self) -> Option<std::cmp::Ordering> {
        Some(self.cmp(o))
    }
}
impl Ord for Job {
    fn cmp(&self, o: &Self) -> std::cmp::Ordering {
        // BinaryHeap is a max-heap: lower level first, then lower order.
        o.level.cmp(&self.level).then(o.order.cmp(&self.order))
    }
}

struct Shared {
    queue: Mutex<(BinaryHeap<Job>, usize)>, // heap, active workers
    skipped_min: std::sync::atomic::AtomicU32,
    cv: Condvar,
    stats: Mutex<Stats>,
    stop: AtomicBool,
    capped: AtomicBool,
    queue_capped: AtomicBool,
    order: AtomicU64,
    execs: AtomicU64,
    deadline: Instant,
    params: Params,
    scns: Vec<Arc<dyn Scenario>>,
    /// Stop at the first unknown violation.
    known: Vec<String>,
    prop: String,
}

/// Children of an execution: one more deviation at a position after the last one.
fn children(devs: &[Deviation], trace: &[StepRec], p: &Params, budget_left: u32, out: &mut Vec<Vec<Deviation>>) {
    if budget_left == 0 {
        return;
    }
    let last = devs.last();
    let start = last.map(|d| d.pos as usize + 1).unwrap_or(0);
    // Add a preemption to the last deviation's own step (task switch + preempt of the switched-to task).
    if let Some(d) = last {
        if p.preempt && d.budget.is_none() && d.task > 0 {
            if let Some(rec) = trace.get(d.pos as usize) {
                if rec.explore {
                    let m = rec.consumed.min(p.preempt_cap + 1);
                    for k in 1..m {
                        let mut v = devs.to_vec();
                        v.last_mut().unwrap().budget = Some(k);
                        out.push(v);
                    }
                }
            }
        }
    }
    for (pos, rec) in trace.iter().enumerate().skip(start) {
        if !rec.explore {
            continue;
        }
        for t in 1..rec.n_enabled {
            let mut v = devs.to_vec();
            v.push(Deviation { pos: pos as u32, task: t, budget: None, expect_enabled: rec.n_enabled });
            out.push(v);
        }
        if p.preempt {
            let m = rec.consumed.min(p.preempt_cap + 1);
            for k in 1..m {
                let mut v = devs.to_vec();
                v.push(Deviation { pos: pos as u32, task: 0, budget: Some(k), expect_enabled: rec.n_enabled });
                out.push(v);
            }
        }
    }
}

fn dev_cost(devs: &[Deviation]) -> u32 {
    devs.iter().map(|d| d.cost()).sum()
}

fn run_one(sh: &Shared, scn: usize, seed: u64, devs: &[Deviation], local: &mut Stats) -> Option<Vec<StepRec>> {
    let n = sh.execs.fetch_add(1, Ordering::Relaxed);
    let s = &*sh.scns[scn];
    let (out, verdict) = execute(s, devs, seed);
    if out.ending == Ending::Diverged {
        // a prefix that cannot be replayed is a machinery error; the execution is never judged
        local.machinery_errors.push(format!("replay divergence in scenario {} devs {:?}: {}", s.id(), devs, out.divergence.clone().unwrap_or_default()));
        sh.stop.store(true, Ordering::Relaxed);
        return None;
    }
    record(sh, s, seed, devs, &out, &verdict, local);
    let check_det = (sh.params.determinism_every > 0 && n % sh.params.determinism_every == 0)
        || verdict.findings.iter().any(|f| f.prop == sh.prop);
    if check_det && s.deterministic() {
        let (out2, verdict2) = execute(s, devs, seed);
        local.determinism_replays += 1;
        if out2.trace.len() != out.trace.len()
            || verdict2.outcome != verdict.outcome
            || verdict2.findings.len() != verdict.findings.len()
        {
            local.machinery_errors.push(format!(
                "non-deterministic replay of scenario {} devs {:?}: steps {} vs {}, outcome equal: {}",
                s.id(),
                devs,
                out.trace.len(),
                out2.trace.len(),
                verdict2.outcome == verdict.outcome
            ));
            sh.stop.store(true, Ordering::Relaxed);
        }
    }
    if out.ending == Ending::Diverged {
        local.machinery_errors.push(format!(
            "replay divergence in scenario {} devs {:?}: {}",
            s.id(),
            devs,
            out.divergence.clone().unwrap_or_default()
        ));
        sh.stop.store(true, Ordering::Relaxed);
        return None;
    }
    Some(out.trace)
}

fn record(sh: &Shared, s: &dyn Scenario, seed: u64, devs: &[Deviation], out: &Outcome, v: &Verdict, local: &mut Stats) {
    local.executions += 1;
    local.steps += out.steps as u64;
    local.wire_events += out.wire.len() as u64;
    let cp = out.trace.iter().filter(|r| r.explore && (r.n_enabled > 1 || r.consumed > 1)).count() as u32;
    local.decision_nodes += out.trace.iter().filter(|r| r.explore).count() as u64;
    local.max_choice_points = local.max_choice_points.max(cp);
    let h = hash_str(&format!("{}|{}", s.id(), v.outcome));
    local.outcomes.insert(h);
    if v.nontrivial {
        local.nontrivial_outcomes.insert(h);
        local.nontrivial_execs += 1;
    }
    *local.execs_per_level.entry(dev_cost(devs)).or_default() += 1;
    *local.endings.entry(format!("{:?}", out.ending)).or_default() += 1;
    if local.samples.len() < 2 && v.nontrivial {
        let sched: Vec<&str> = out.schedule.iter().map(|s| s.as_str()).take(40).collect();
        local.samples.push(format!(
            "scenario={} seed={} deviations={:?} steps={} outcome={} schedule(first 40)={}",
            s.id(),
            seed,
            devs.iter().map(|d| (d.pos, d.task, d.budget)).collect::<Vec<_>>(),
            out.steps,
            trunc(&v.outcome, 300),
            sched.join(" ")
        ));
    }
    for f in &v.findings {
        if f.prop != sh.prop {
            local.other_prop_findings += 1;
            continue;
        }
        let is_known = sh.known.iter().any(|k| *k == f.sig);
        let mut st = sh.stats.lock().unwrap();
        let dup = st.violations.iter().filter(|x| x.finding.sig == f.sig).count();
        if dup < 3 {
            st.violations.push(ViolationRec {
                finding: f.clone(),
                scenario: s.id(),
                seed,
                deviations: devs.to_vec(),
                schedule: out.schedule.clone(),
                ending: format!("{:?}", out.ending),
            });
        }
        drop(st);
        if !is_known && std::env::var_os("VERIF_KEEP_GOING").is_none() {
            sh.stop.store(true, Ordering::Relaxed);
        }
    }
}

pub fn trunc(s: &str, n: usize) -> String {
    if s.len() <= n { s.to_string() } else { format!("{}…", &s[..s.char_indices().take_while(|(i, _)| *i < n).count()]) }
}

/// Upper bound on queued schedule prefixes (about 100 bytes each).
const QUEUE_CAP: usize = 4_000_000;

fn worker(sh: Arc<Shared>) {
    let mut local = Stats::default();
    loop {
        let job = {
            let mut q = sh.queue.lock().unwrap();
            loop {
                if sh.stop.load(Ordering::Relaxed) {
                    q.0.clear();
                }
                if let Some(j) = q.0.pop() {
                    q.1 += 1;
                    break Some(j);
                }
                if q.1 == 0 {
                    sh.cv.notify_all();
                    break None;
                }
                q = sh.cv.wait(q).unwrap();
            }
        };
        let Some(job) = job else { break };

        let over = |sh: &Shared| {
            Instant::now() >= sh.deadline || sh.execs.load(Ordering::Relaxed) >= sh.params.max_execs
        };
        if over(&sh) {
            sh.capped.store(true, Ordering::Relaxed);
            sh.skipped_min.fetch_min(job.level, Ordering::Relaxed);
        } else if job.expand {
            // Strict breadth-first order: the last level is expanded only after all shallower jobs ran.
            let (out, _) = execute(&*sh.scns[job.scn], &job.devs, job.seed);
            let cost = dev_cost(&job.devs);
            let left = sh.params.max_dev.saturating_sub(cost);
            let mut kids = Vec::new();
            children(&job.devs, &out.trace, &sh.params, left, &mut kids);
            kids.retain(|k| dev_cost(k) <= sh.params.max_dev);
            for k in kids {
                if sh.stop.load(Ordering::Relaxed) {
                    break;
                }
                if over(&sh) {
                    sh.capped.store(true, Ordering::Relaxed);
                    sh.skipped_min.fetch_min(dev_cost(&k), Ordering::Relaxed);
                    break;
                }
                run_one(&sh, job.scn, job.seed, &k, &mut local);
            }
        } else if let Some(trace) = run_one(&sh, job.scn, job.seed, &job.devs, &mut local) {
            // scenarios with uncontrollable helper threads are explored on the default schedule only
            let trace = if sh.scns[job.scn].deterministic() { trace } else { Vec::new() };
            let cost = dev_cost(&job.devs);
            let left = sh.params.max_dev.saturating_sub(cost);
            let mut kids = Vec::new();
            children(&job.devs, &trace, &sh.params, left, &mut kids);
            // Keep only kids within the bound (a combined step may cost 2).
            kids.retain(|k| dev_cost(k) <= sh.params.max_dev);
            if !kids.is_empty() {
                let last_level = kids.iter().all(|k| dev_cost(k) >= sh.params.max_dev);
                let mut q = sh.queue.lock().unwrap();
                if last_level {
                    let order = sh.order.fetch_add(1, Ordering::Relaxed);
                    q.0.push(Job { expand: true, level: sh.params.max_dev, scn: job.scn, seed: job.seed, devs: job.devs.clone(), order });
                } else if q.0.len() + kids.len() > QUEUE_CAP {
                    // memory guard: the frontier is not allowed to grow without bound; what is not queued counts as skipped
                    sh.capped.store(true, Ordering::Relaxed);
                    sh.queue_capped.store(true, Ordering::Relaxed);
                    for k in &kids {
                        sh.skipped_min.fetch_min(dev_cost(k), Ordering::Relaxed);
                    }
                } else {
                    for k in kids {
                        let level = dev_cost(&k);
                        let order = sh.order.fetch_add(1, Ordering::Relaxed);
                        q.0.push(Job { expand: false, level, scn: job.scn, seed: job.seed, devs: k, order });
                    }
                }
                sh.cv.notify_all();
            }
        }

        let mut q = sh.queue.lock().unwrap();
        q.1 -= 1;
        sh.cv.notify_all();
    }
    sh.stats.lock().unwrap().merge(local);
}

/// Explores all scenarios under the parameters. `known` = signatures that do not stop the search.
pub fn explore(prop: &str, scns: Vec<Arc<dyn Scenario>>, params: Params, known: &[String]) -> Stats {
    let n_scn = scns.len();
    let sh = Arc::new(Shared {
        queue: Mutex::new((BinaryHeap::new(), 0)),
        skipped_min: std::sync::atomic::AtomicU32::new(u32::MAX),
        cv: Condvar::new(),
        stats: Mutex::new(Stats::default()),
        stop: AtomicBool::new(false),
        capped: AtomicBool::new(false),
        queue_capped: AtomicBool::new(false),
        order: AtomicU64::new(0),
        execs: AtomicU64::new(0),
        deadline: Instant::now() + params.time_limit,
        params: params.clone(),
        scns,
        known: known.to_vec(),
        prop: prop.to_string(),
    });
    {
        let mut q = sh.queue.lock().unwrap();
        for scn in 0..n_scn {
            for seed in &params.seeds {
                let order = sh.order.fetch_add(1, Ordering::Relaxed);
                q.0.push(Job { expand: false, level: 0, scn, seed: *seed, devs: Vec::new(), order });
            }
        }
    }
    let threads: Vec<_> = (0..params.threads.max(1))
        .map(|_| {
            let sh = sh.clone();
            std::thread::Builder::new().stack_size(16 << 20).spawn(move || worker(sh)).unwrap()
        })
        .collect();
    for t in threads {
        let _ = t.join();
    }
    let mut stats = std::mem::take(&mut *sh.stats.lock().unwrap());
    stats.scenarios = n_scn as u64;
    stats.max_dev = params.max_dev;
    let capped = sh.capped.load(Ordering::Relaxed);
    let stopped = sh.stop.load(Ordering::Relaxed);
    if sh.queue_capped.load(Ordering::Relaxed) {
        stats.caps_hit.push(format!("frontier cap: more than {QUEUE_CAP} schedule prefixes were pending; further children were not queued"));
    }
    if capped {
        stats.caps_hit.push(format!(
            "time/execution cap hit after {} executions ({}s limit, max_execs {})",
            stats.executions,
            params.time_limit.as_secs(),
            params.max_execs
        ));
    }
    // Completed bound: the queue is ordered by level, so every level strictly below the lowest
    // level of any skipped job is complete.
    stats.level_completed = if stopped {
        None
    } else if capped {
        sh.skipped_min.load(Ordering::Relaxed).checked_sub(1)
    } else {
        Some(params.max_dev)
    };
    stats
}
