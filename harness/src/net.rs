//! Harness-owned transport: in-memory links with one pump task per direction, fault plans and a
//! wire log.

use bytes::Bytes;
use futures::{Sink, Stream};
use std::{
    collections::VecDeque,
    fmt,
    future::Future,
    pin::Pin,
    sync::{Arc, Mutex},
    task::{Context, Poll, Waker},
};

use crate::sched::Ctl;

#[derive(Debug, Clone)]
pub struct NetError(pub String);

impl fmt::Display for NetError {
    fn fmt(&self, f: &mut fmt::Formatter<'_>) -> fmt::Result {
        write!(f, "net error: {}", self.0)
    }
}

impl std::error::Error for NetError {}

/// Kind of injected transport fault.
#[derive(Debug, Clone, Copy, PartialEq, Eq, Hash, serde::Serialize, serde::Deserialize)]
pub enum FaultKind {
    /// The sink reports an error when the frame with the given index is about to be sent.
    SinkError,
    /// The stream reports an error after that many frames were delivered.
    StreamError,
    /// The stream ends after that many frames were delivered.
    Eof,
    /// The direction silently stops moving frames after that many were moved.
    StallOne,
    /// Both directions of the link stop moving frames at that moment.
    StallBoth,
}

#[derive(Debug, Clone, Copy, PartialEq, Eq, Hash, serde::Serialize, serde::Deserialize)]
pub struct Fault {
    /// Direction: 0 = a→b, 1 = b→a.
    pub dir: u8,
    /// Frame index.
    pub at: u32,
    pub kind: FaultKind,
}

#[derive(Debug, Clone, Copy, PartialEq, Eq)]
pub enum WireKind {
    /// Frame accepted by the sink (put on the transport).
    Sent,
    /// Frame handed to the receiving endpoint.
    Delivered,
    /// Fault became effective.
    Fault,
}

#[derive(Debug, Clone)]
pub struct WireEvt {
    pub step: u32,
    /// Virtual milliseconds since the start of the execution.
    pub ms: u64,
    pub link: u8,
    pub dir: u8,
    pub kind: WireKind,
    pub frame: Bytes,
}

/// Log of everything that happened on all links of an execution.
pub struct WireLog {
    ctl: Arc<Ctl>,
    t0: Mutex<Option<tokio::time::Instant>>,
    pub events: Mutex<Vec<WireEvt>>,
}

impl WireLog {
    pub fn new(ctl: Arc<Ctl>) -> Arc<Self> {
        Arc::new(Self { ctl, t0: Mutex::new(None), events: Mutex::new(Vec::new()) })
    }

    /// Must be called inside the runtime.
    pub fn start_clock(&self) {
        *self.t0.lock().unwrap() = Some(tokio::time::Instant::now());
    }

    fn push(&self, link: u8, dir: u8, kind: WireKind, frame: Bytes) {
        let step = self.ctl.step();
        let ms = self.t0.lock().unwrap().map(|t| t.elapsed().as_millis() as u64).unwrap_or(0);
        self.events.lock().unwrap().push(WireEvt { step, ms, link, dir, kind, frame });
    }

    pub fn len(&self) -> usize {
        self.events.lock().unwrap().len()
    }

    pub fn snapshot(&self) -> Vec<WireEvt> {
        self.events.lock().unwrap().clone()
    }
}

#[derive(Debug, Clone, Copy)]
pub struct LinkOpts {
    /// Frames that may sit in flight before the sink exerts back-pressure.
    pub capacity: usize,
    /// Frames that may sit delivered-but-unread.
    pub deliver_cap: usize,
    /// When the sending side drops its sink, the receiving stream ends after draining.
    pub eof_on_drop: bool,
}

impl Default for LinkOpts {
    fn default() -> Self {
        Self { capacity: 2, deliver_cap: 2, eof_on_drop: true }
    }
}

struct DirInner {
    in_flight: VecDeque<Bytes>,
    delivered: VecDeque<Bytes>,
    sink_waker: Option<Waker>,
    stream_waker: Option<Waker>,
    pump_waker: Option<Waker>,
    sent: u32,
    moved: u32,
    recvd: u32,
    fault: Option<Fault>,
    fault_done: bool,
    sink_dropped: bool,
    stream_dropped: bool,
    eof: bool,
    stalled: bool,
    /// Pump is gated by the scenario (frames held back).
    held: bool,
    /// Connection cut by the scenario.
    cut: bool,
}

pub struct Dir {
    link: u8,
    dir: u8,
    opts: LinkOpts,
    log: Arc<WireLog>,
    inner: Mutex<DirInner>,
    /// The opposite direction (for StallBoth).
    other: Mutex<Option<std::sync::Weak<Dir>>>,
}

impl Dir {
    fn new(link: u8, dir: u8, opts: LinkOpts, log: Arc<WireLog>, fault: Option<Fault>) -> Arc<Self> {
        Arc::new(Self {
            link,
            dir,
            opts,
            log,
            inner: Mutex::new(DirInner {
                in_flight: VecDeque::new(),
                delivered: VecDeque::new(),
                sink_waker: None,
                stream_waker: None,
                pump_waker: None,
                sent: 0,
                moved: 0,
                recvd: 0,
                fault,
                fault_done: false,
                sink_dropped: false,
                stream_dropped: false,
                eof: false,
                stalled: false,
                held: false,
                cut: false,
            }),
            other: Mutex::new(None),
        })
    }

    /// Hold back (or release) frames in flight in this direction.
    pub fn hold(&self, held: bool) {
        let mut i = self.inner.lock().unwrap();
        i.held = held;
        if !held {
            if let Some(w) = i.pump_waker.take() {
                w.wake();
            }
        }
    }

    /// Cuts this direction: the sink reports an error, the stream ends after what was delivered.
    pub fn cut(&self) {
        let mut i = self.inner.lock().unwrap();
        if i.cut {
            return;
        }
        i.cut = true;
        i.stalled = true;
        i.eof = true;
        self.log.push(self.link, self.dir, WireKind::Fault, Bytes::new());
        if let Some(w) = i.stream_waker.take() {
            w.wake();
        }
        if let Some(w) = i.sink_waker.take() {
            w.wake();
        }
    }

    pub fn stall(&self) {
        let mut i = self.inner.lock().unwrap();
        i.stalled = true;
    }

    /// Frames (sent, moved, received).
    pub fn counts(&self) -> (u32, u32, u32) {
        let i = self.inner.lock().unwrap();
        (i.sent, i.moved, i.recvd)
    }

    pub fn in_flight(&self) -> usize {
        let i = self.inner.lock().unwrap();
        i.in_flight.len() + i.delivered.len()
    }

    /// Inject a raw frame as if the sending endpoint had sent it (scripted peers).
    pub fn inject(&self, frame: Bytes) {
        let mut i = self.inner.lock().unwrap();
        i.in_flight.push_back(frame.clone());
        i.sent += 1;
        self.log.push(self.link, self.dir, WireKind::Sent, frame);
        if let Some(w) = i.pump_waker.take() {
            w.wake();
        }
    }
}

/// Sending half handed to an endpoint.
pub struct NetSink(Arc<Dir>);

/// Receiving half handed to an endpoint.
pub struct NetStream(Arc<Dir>);

impl NetSink {
    pub fn dir(&self) -> Arc<Dir> {
        self.0.clone()
    }
}

impl NetStream {
    pub fn dir(&self) -> Arc<Dir> {
        self.0.clone()
    }
}

impl Sink<Bytes> for NetSink {
    type Error = NetError;

    fn poll_ready(self: Pin<&mut Self>, cx: &mut Context<'_>) -> Poll<Result<(), NetError>> {
        let d = &self.0;
        let mut i = d.inner.lock().unwrap();
        if let Some(f) = i.fault {
            if f.kind == FaultKind::SinkError && i.sent >= f.at {
                if !i.fault_done {
                    i.fault_done = true;
                    d.log.push(d.link, d.dir, WireKind::Fault, Bytes::new());
                }
                return Poll::Ready(Err(NetError("injected sink error".into())));
            }
        }
        if i.cut {
            return Poll::Ready(Err(NetError("connection cut".into())));
        }
        if i.stream_dropped && d.opts.eof_on_drop {
            return Poll::Ready(Err(NetError("peer closed".into())));
        }
        if i.in_flight.len() >= d.opts.capacity {
            i.sink_waker = Some(cx.waker().clone());
            return Poll::Pending;
        }
        Poll::Ready(Ok(()))
    }

    fn start_send(self: Pin<&mut Self>, item: Bytes) -> Result<(), NetError> {
        let d = &self.0;
        let mut i = d.inner.lock().unwrap();
        i.in_flight.push_back(item.clone());
        i.sent += 1;
        d.log.push(d.link, d.dir, WireKind::Sent, item);
        if let Some(w) = i.pump_waker.take() {
            w.wake();
        }
        Ok(())
    }

    fn poll_flush(self: Pin<&mut Self>, _cx: &mut Context<'_>) -> Poll<Result<(), NetError>> {
        Poll::Ready(Ok(()))
    }

    fn poll_close(self: Pin<&mut Self>, _cx: &mut Context<'_>) -> Poll<Result<(), NetError>> {
        Poll::Ready(Ok(()))
    }
}

impl Drop for NetSink {
    fn drop(&mut self) {
        let mut i = self.0.inner.lock().unwrap();
        i.sink_dropped = true;
        if let Some(w) = i.pump_waker.take() {
            w.wake();
        }
    }
}

impl Stream for NetStream {
    type Item = Result<Bytes, NetError>;

    fn poll_next(self: Pin<&mut Self>, cx: &mut Context<'_>) -> Poll<Option<Self::Item>> {
        let d = &self.0;
        let mut i = d.inner.lock().unwrap();
        if let Some(f) = i.fault {
            if i.recvd >= f.at && matches!(f.kind, FaultKind::StreamError | FaultKind::Eof) {
                let first = !i.fault_done;
                if first {
                    i.fault_done = true;
                    d.log.push(d.link, d.dir, WireKind::Fault, Bytes::new());
                }
                return match f.kind {
                    FaultKind::StreamError if first => {
                        Poll::Ready(Some(Err(NetError("injected stream error".into()))))
                    }
                    _ => Poll::Ready(None),
                };
            }
        }
        if let Some(frame) = i.delivered.pop_front() {
            i.recvd += 1;
            d.log.push(d.link, d.dir, WireKind::Delivered, frame.clone());
            if let Some(w) = i.pump_waker.take() {
                w.wake();
            }
            return Poll::Ready(Some(Ok(frame)));
        }
        if i.eof {
            return Poll::Ready(None);
        }
        i.stream_waker = Some(cx.waker().clone());
        Poll::Pending
    }
}

impl Drop for NetStream {
    fn drop(&mut self) {
        let mut i = self.0.inner.lock().unwrap();
        i.stream_dropped = true;
        if let Some(w) = i.sink_waker.take() {
            w.wake();
        }
    }
}

/// Moves one frame per poll from "in flight" to "delivered".
pub struct Pump(Arc<Dir>);

impl Future for Pump {
    type Output = ();

    fn poll(self: Pin<&mut Self>, cx: &mut Context<'_>) -> Poll<()> {
        let d = &self.0;
        let mut i = d.inner.lock().unwrap();
        if i.stalled {
            i.pump_waker = Some(cx.waker().clone());
            return Poll::Pending;
        }
        if let Some(f) = i.fault {
            if matches!(f.kind, FaultKind::StallOne | FaultKind::StallBoth) && i.moved >= f.at {
                i.stalled = true;
                i.fault_done = true;
                d.log.push(d.link, d.dir, WireKind::Fault, Bytes::new());
                if f.kind == FaultKind::StallBoth {
                    if let Some(o) = d.other.lock().unwrap().as_ref().and_then(|o| o.upgrade()) {
                        o.stall();
                    }
                }
                i.pump_waker = Some(cx.waker().clone());
                return Poll::Pending;
            }
        }
        if !i.held && !i.in_flight.is_empty() && i.delivered.len() < d.opts.deliver_cap {
            let frame = i.in_flight.pop_front().unwrap();
            i.delivered.push_back(frame);
            i.moved += 1;
            if let Some(w) = i.stream_waker.take() {
                w.wake();
            }
            if let Some(w) = i.sink_waker.take() {
                w.wake();
            }
            if !i.in_flight.is_empty() && i.delivered.len() < d.opts.deliver_cap {
                cx.waker().wake_by_ref();
            } else {
                i.pump_waker = Some(cx.waker().clone());
            }
            return Poll::Pending;
        }
        if i.sink_dropped && i.in_flight.is_empty() {
            if d.opts.eof_on_drop {
                i.eof = true;
                if let Some(w) = i.stream_waker.take() {
                    w.wake();
                }
            }
            return Poll::Ready(());
        }
        i.pump_waker = Some(cx.waker().clone());
        Poll::Pending
    }
}

/// One end of a link.
pub struct LinkEnd {
    pub sink: NetSink,
    pub stream: NetStream,
}

/// Creates a link; returns the two ends, the two pumps (a→b, b→a) and the direction handles.
pub fn link(
    id: u8, opts: LinkOpts, log: Arc<WireLog>, faults: &[Fault],
) -> (LinkEnd, LinkEnd, Pump, Pump, [Arc<Dir>; 2]) {
    let f0 = faults.iter().find(|f| f.dir == 0).copied();
    let f1 = faults.iter().find(|f| f.dir == 1).copied();
    let ab = Dir::new(id, 0, opts, log.clone(), f0);
    let ba = Dir::new(id, 1, opts, log, f1);
    *ab.other.lock().unwrap() = Some(Arc::downgrade(&ba));
    *ba.other.lock().unwrap() = Some(Arc::downgrade(&ab));
    (
        LinkEnd { sink: NetSink(ab.clone()), stream: NetStream(ba.clone()) },
        LinkEnd { sink: NetSink(ba.clone()), stream: NetStream(ab.clone()) },
        Pump(ab.clone()),
        Pump(ba.clone()),
        [ab, ba],
    )
}
