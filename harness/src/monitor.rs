//! Wire monitor: folds the decoded wire log of one link into a ledger (ports, half-closed flags,
//! payload cost, credit) and checks the protocol invariants at every prefix.

use std::collections::HashMap;

use crate::{
    net::{WireEvt, WireKind},
    wire::{DirDecoder, HelloCfg, Item, Msg},
};

#[derive(Debug, Clone)]
pub struct LedgerViolation {
    /// Property the invariant belongs to.
    pub prop: &'static str,
    /// Stable signature of the kind of violation.
    pub sig: String,
    pub detail: String,
    /// Index of the wire event at which it was detected.
    pub at: usize,
}

#[derive(Debug, Clone, Copy, PartialEq, Eq)]
pub enum RecState {
    Requested,
    Open,
    Rejected,
}

/// Flow state of one direction of a port (sender endpoint `e`).
#[derive(Debug, Clone, Default)]
pub struct FlowDir {
    pub cost_sent: u64,
    pub cost_delivered: u64,
    pub credits_sent: u64,
    pub credits_delivered: u64,
    pub data_frames: u32,
    pub port_frames: u32,
    pub max_outstanding: i64,
}

#[derive(Debug, Clone)]
pub struct PortRec {
    /// Port number at endpoint 0 / 1.
    pub num: [Option<u32>; 2],
    /// Endpoint that requested the port.
    pub requester: u8,
    /// Requested via OpenPort (client) or via PortData (over a port).
    pub via_client: bool,
    pub state: RecState,
    pub id: Option<u32>,
    pub wait: bool,
    pub sent_sf: [bool; 2],
    pub sent_rf: [bool; 2],
    pub sent_rc: [bool; 2],
    pub got_sf: [bool; 2],
    pub got_rf: [bool; 2],
    /// flow[e]: direction in which endpoint e is the sender.
    pub flow: [FlowDir; 2],
    /// Number released at endpoint e.
    pub released: [bool; 2],
    pub answered_delivered: bool,
}

#[derive(Default, Clone)]
struct PendingData {
    port: u32,
    valid: bool,
}

pub struct Ledger {
    pub link: u8,
    pub hello: [Option<(u8, HelloCfg)>; 2],
    pub max_ports: [u32; 2],
    pub recs: Vec<PortRec>,
    /// Active port numbers per endpoint.
    pub active: [HashMap<u32, usize>; 2],
    sent_dec: [DirDecoder; 2],
    dlv_dec: [DirDecoder; 2],
    sent_pending: [PendingData; 2],
    dlv_pending: [PendingData; 2],
    /// Unanswered client requests as seen by the requester.
    pub outstanding: [i64; 2],
    pub max_outstanding: [i64; 2],
    pub goodbye: [bool; 2],
    pub client_finish: [bool; 2],
    pub listener_finish: [bool; 2],
    pub violations: Vec<LedgerViolation>,
    pub msgs_sent: [Vec<Msg>; 2],
    pub malformed: [u32; 2],
    pub frames: [u32; 2],
    pub max_active: [usize; 2],
    pub reuses: u32,
    /// If set, frames sent by this endpoint come from a scripted peer and are not judged.
    pub untrusted: [bool; 2],
    n: usize,
}

impl Ledger {
    pub fn new(link: u8, max_ports: [u32; 2]) -> Self {
        Self {
            link,
            hello: [None, None],
            max_ports,
            recs: Vec::new(),
            active: [HashMap::new(), HashMap::new()],
            sent_dec: Default::default(),
            dlv_dec: Default::default(),
            sent_pending: Default::default(),
            dlv_pending: Default::default(),
            outstanding: [0; 2],
            max_outstanding: [0; 2],
            goodbye: [false; 2],
            client_finish: [false; 2],
            listener_finish: [false; 2],
            violations: Vec::new(),
            msgs_sent: [Vec::new(), Vec::new()],
            malformed: [0; 2],
            frames: [0; 2],
            max_active: [0; 2],
            reuses: 0,
            untrusted: [false; 2],
            n: 0,
        }
    }

    /// Builds the ledger of one link from a wire log.
    pub fn build(link: u8, max_ports: [u32; 2], events: &[WireEvt]) -> Self {
        let mut l = Self::new(link, max_ports);
        for ev in events.iter().filter(|e| e.link == link) {
            l.feed(ev);
        }
        l
    }

    fn viol(&mut self, by: usize, prop: &'static str, sig: &str, detail: String) {
        if self.untrusted[by] {
            return;
        }
        self.violations.push(LedgerViolation { prop, sig: sig.to_string(), detail, at: self.n });
    }

    /// Record of the port with number `num` at endpoint `ep`, if active.
    pub fn rec_of(&self, ep: usize, num: u32) -> Option<&PortRec> {
        self.active[ep].get(&num).map(|i| &self.recs[*i])
    }

    /// Latest record (active or not) that had number `num` at endpoint `ep`.
    pub fn last_rec_of(&self, ep: usize, num: u32) -> Option<&PortRec> {
        self.recs.iter().rev().find(|r| r.num[ep] == Some(num))
    }

    /// Credits the sender `ep` of the record must hold according to the wire: R - (sent - delivered credits).
    pub fn pool(&self, rec: &PortRec, ep: usize) -> i64 {
        let r = self.hello[1 - ep].as_ref().map(|h| h.1.receive_buffer).unwrap_or(0) as i64;
        r - (rec.flow[ep].cost_sent as i64 - rec.flow[ep].credits_delivered as i64)
    }

    fn alloc(&mut self, ep: usize, num: u32, idx: usize) {
        if let Some(old) = self.active[ep].get(&num).copied() {
            let detail = format!(
                "endpoint {ep} re-used port number {num} while its previous use is still active ({:?})",
                self.recs[old]
            );
            self.viol(ep, "C07", "port-number-reused-while-active", detail);
        }
        if self.recs.iter().any(|r| r.num[ep] == Some(num) && r.released[ep]) {
            self.reuses += 1;
        }
        self.active[ep].insert(num, idx);
        self.max_active[ep] = self.max_active[ep].max(self.active[ep].len());
        if self.active[ep].len() as u64 > self.max_ports[ep] as u64 {
            let detail =
                format!("endpoint {ep} has {} ports in use, max_ports {}", self.active[ep].len(), self.max_ports[ep]);
            self.viol(ep, "C07", "max-ports-exceeded", detail);
        }
    }

    fn maybe_release(&mut self, idx: usize, ep: usize) {
        let r = &mut self.recs[idx];
        if !r.released[ep] && r.sent_sf[ep] && r.sent_rf[ep] && r.got_sf[ep] && r.got_rf[ep] {
            r.released[ep] = true;
            if let Some(n) = r.num[ep] {
                if self.active[ep].get(&n) == Some(&idx) {
                    self.active[ep].remove(&n);
                }
            }
        }
    }

    fn check_flow(&mut self, idx: usize, ep: usize) {
        let Some((_, peer)) = self.hello[1 - ep].clone() else { return };
        let f = &mut self.recs[idx].flow[ep];
        let outstanding = f.cost_sent as i64 - f.credits_delivered as i64;
        f.max_outstanding = f.max_outstanding.max(outstanding);
        if outstanding > peer.receive_buffer as i64 {
            let detail = format!(
                "endpoint {ep} has {} bytes outstanding on port {:?} but peer advertised receive buffer {}",
                outstanding, self.recs[idx].num, peer.receive_buffer
            );
            self.viol(ep, "C02", "receive-buffer-exceeded", detail);
        }
    }

    pub fn feed(&mut self, ev: &WireEvt) {
        self.n += 1;
        let d = ev.dir as usize;
        match ev.kind {
            WireKind::Fault => {}
            WireKind::Sent => {
                self.frames[d] += 1;
                let item = self.sent_dec[d].feed(&ev.frame);
                self.on_sent(d, item);
            }
            WireKind::Delivered => {
                let item = self.dlv_dec[d].feed(&ev.frame);
                self.on_delivered(d, item);
            }
        }
    }

    fn on_sent(&mut self, e: usize, item: Item) {
        let p = 1 - e;
        match item {
            Item::Malformed(err) => {
                self.malformed[e] += 1;
                self.viol(e, "C09", "malformed-frame-emitted", format!("endpoint {e} emitted malformed frame: {err}"));
            }
            Item::Payload(len) => {
                let pd = std::mem::take(&mut self.sent_pending[e]);
                if !pd.valid {
                    return;
                }
                let Some(idx) = self.active[p].get(&pd.port).copied() else {
                    // Port unknown at receiver: only acceptable if it was open before and the sender
                    // has not finished sending (cannot happen before receiver got SendFinish).
                    self.viol(
                        e,
                        "C02",
                        "data-for-unknown-port",
                        format!("endpoint {e} sent data for port {} not active at peer", pd.port),
                    );
                    return;
                };
                if let Some((_, peer)) = &self.hello[p] {
                    if len as u64 > peer.chunk_size as u64 {
                        let detail = format!("endpoint {e} sent {len} payload bytes, peer chunk size {}", peer.chunk_size);
                        self.viol(e, "C02", "chunk-size-exceeded", detail);
                    }
                }
                if self.recs[idx].sent_sf[e] {
                    self.viol(e, "C11", "data-after-send-finish", format!("endpoint {e} sent data after SendFinish"));
                }
                let f = &mut self.recs[idx].flow[e];
                f.cost_sent += (len as u64).max(1);
                f.data_frames += 1;
                self.check_flow(idx, e);
            }
            Item::Msg(m) => {
                if self.goodbye[e] {
                    self.viol(e, "C07", "message-after-goodbye", format!("endpoint {e} sent {} after Goodbye", m.name()));
                }
                self.msgs_sent[e].push(m.clone());
                match m {
                    Msg::Hello { version, cfg } => self.hello[e] = Some((version, cfg)),
                    Msg::Reset | Msg::Ping => {}
                    Msg::OpenPort { client_port, wait, id } => {
                        let idx = self.recs.len();
                        self.recs.push(new_rec(e, client_port, true, id, wait));
                        self.alloc(e, client_port, idx);
                        self.outstanding[e] += 1;
                        self.max_outstanding[e] = self.max_outstanding[e].max(self.outstanding[e]);
                        if let Some((_, peer)) = &self.hello[p] {
                            if self.outstanding[e] > peer.connect_queue as i64 {
                                let detail = format!(
                                    "endpoint {e} has {} unanswered OpenPort requests, peer connect_queue {}",
                                    self.outstanding[e], peer.connect_queue
                                );
                                self.viol(e, "C10", "connect-queue-exceeded", detail);
                            }
                        }
                        if self.client_finish[e] {
                            self.viol(e, "C07", "open-after-client-finish", "OpenPort after ClientFinish".into());
                        }
                    }
                    Msg::PortData { port, ports, ids, wait, .. } => {
                        if ports.is_empty() {
                            self.viol(e, "C03", "empty-port-data", format!("endpoint {e} sent PortData without ports"));
                        }
                        let cost = 4 * ports.len() as u64;
                        match self.active[p].get(&port).copied() {
                            Some(idx) => {
                                if let Some((_, peer)) = &self.hello[p] {
                                    if cost > peer.chunk_size as u64 {
                                        let detail = format!(
                                            "endpoint {e} sent {} ports in one frame, peer chunk size {}",
                                            ports.len(),
                                            peer.chunk_size
                                        );
                                        self.viol(e, "C02", "chunk-size-exceeded", detail);
                                    }
                                }
                                let f = &mut self.recs[idx].flow[e];
                                f.cost_sent += cost;
                                f.port_frames += 1;
                                self.check_flow(idx, e);
                            }
                            None => self.viol(
                                e,
                                "C02",
                                "data-for-unknown-port",
                                format!("endpoint {e} sent port data for port {port} not active at peer"),
                            ),
                        }
                        for (i, n) in ports.iter().enumerate() {
                            let idx = self.recs.len();
                            self.recs.push(new_rec(e, *n, false, ids.as_ref().map(|ids| ids[i]), wait));
                            self.alloc(e, *n, idx);
                        }
                    }
                    Msg::PortOpened { client_port, server_port } => match self.active[p].get(&client_port).copied() {
                        Some(idx) if self.recs[idx].state == RecState::Requested && self.recs[idx].requester as usize == p => {
                            self.recs[idx].state = RecState::Open;
                            self.recs[idx].num[e] = Some(server_port);
                            self.alloc(e, server_port, idx);
                        }
                        _ => self.viol(
                            e,
                            "C10",
                            "answer-without-request",
                            format!("endpoint {e} sent PortOpened for {client_port} which is not a pending request"),
                        ),
                    },
                    Msg::Rejected { client_port, .. } => match self.active[p].get(&client_port).copied() {
                        Some(idx) if self.recs[idx].state == RecState::Requested && self.recs[idx].requester as usize == p => {
                            self.recs[idx].state = RecState::Rejected;
                        }
                        _ => self.viol(
                            e,
                            "C10",
                            "answer-without-request",
                            format!("endpoint {e} sent Rejected for {client_port} which is not a pending request"),
                        ),
                    },
                    Msg::Data { port, .. } => {
                        self.sent_pending[e] = PendingData { port, valid: true };
                    }
                    Msg::PortCredits { port, credits } => match self.active[p].get(&port).copied() {
                        Some(idx) => {
                            // e is the receiver of direction p→e.
                            let f = &mut self.recs[idx].flow[p];
                            f.credits_sent += credits as u64;
                            if f.credits_sent > f.cost_delivered {
                                let detail = format!(
                                    "endpoint {e} granted {} credits in total but only {} bytes were delivered to it",
                                    f.credits_sent, f.cost_delivered
                                );
                                self.viol(e, "C02", "credit-granted-beyond-consumed", detail);
                            }
                            if self.recs[idx].sent_rf[e] {
                                self.viol(e, "C11", "credits-after-receive-finish", "PortCredits after ReceiveFinish".into());
                            }
                        }
                        None => {
                            // Credits for a port the peer has already released: harmless only if peer
                            // could not have released it; report.
                            self.viol(
                                e,
                                "C02",
                                "credits-for-unknown-port",
                                format!("endpoint {e} sent credits for port {port} not active at peer"),
                            );
                        }
                    },
                    Msg::SendFinish { port } | Msg::ReceiveClose { port } | Msg::ReceiveFinish { port } => {
                        match self.active[p].get(&port).copied() {
                            Some(idx) => {
                                let r = &mut self.recs[idx];
                                let (flag, name) = match m {
                                    Msg::SendFinish { .. } => (&mut r.sent_sf[e], "SendFinish"),
                                    Msg::ReceiveClose { .. } => (&mut r.sent_rc[e], "ReceiveClose"),
                                    _ => (&mut r.sent_rf[e], "ReceiveFinish"),
                                };
                                let dup = *flag;
                                *flag = true;
                                if dup {
                                    self.viol(e, "C07", "duplicate-finish", format!("endpoint {e} sent {name} twice for port {port}"));
                                }
                                self.maybe_release(idx, e);
                            }
                            None => self.viol(
                                e,
                                "C07",
                                "finish-for-unknown-port",
                                format!("endpoint {e} sent {} for port {port} not active at peer", m.name()),
                            ),
                        }
                    }
                    Msg::ClientFinish => self.client_finish[e] = true,
                    Msg::ListenerFinish => self.listener_finish[e] = true,
                    Msg::Goodbye => self.goodbye[e] = true,
                }
            }
        }
    }

    fn on_delivered(&mut self, e: usize, item: Item) {
        // Frame sent by e, delivered to p.
        let p = 1 - e;
        match item {
            Item::Malformed(_) => {}
            Item::Payload(len) => {
                let pd = std::mem::take(&mut self.dlv_pending[e]);
                if !pd.valid {
                    return;
                }
                if let Some(idx) = self.active[p].get(&pd.port).copied() {
                    self.recs[idx].flow[e].cost_delivered += (len as u64).max(1);
                }
            }
            Item::Msg(m) => match m {
                Msg::Data { port, .. } => self.dlv_pending[e] = PendingData { port, valid: true },
                Msg::PortData { port, ports, .. } => {
                    if let Some(idx) = self.active[p].get(&port).copied() {
                        self.recs[idx].flow[e].cost_delivered += 4 * ports.len() as u64;
                    }
                }
                Msg::PortCredits { port, credits } => {
                    if let Some(idx) = self.active[p].get(&port).copied() {
                        self.recs[idx].flow[p].credits_delivered += credits as u64;
                    }
                }
                Msg::PortOpened { client_port, .. } => {
                    if let Some(idx) = self.active[p].get(&client_port).copied() {
                        if !self.recs[idx].answered_delivered {
                            self.recs[idx].answered_delivered = true;
                            if self.recs[idx].via_client {
                                self.outstanding[p] -= 1;
                            }
                        }
                    }
                }
                Msg::Rejected { client_port, .. } => {
                    if let Some(idx) = self.active[p].get(&client_port).copied() {
                        if !self.recs[idx].answered_delivered {
                            self.recs[idx].answered_delivered = true;
                            if self.recs[idx].via_client {
                                self.outstanding[p] -= 1;
                            }
                            self.recs[idx].released[p] = true;
                            self.active[p].remove(&client_port);
                        }
                    }
                }
                Msg::SendFinish { port } => {
                    if let Some(idx) = self.active[p].get(&port).copied() {
                        self.recs[idx].got_sf[p] = true;
                        self.maybe_release(idx, p);
                    }
                }
                Msg::ReceiveFinish { port } => {
                    if let Some(idx) = self.active[p].get(&port).copied() {
                        self.recs[idx].got_rf[p] = true;
                        self.maybe_release(idx, p);
                    }
                }
                _ => {}
            },
        }
    }

    /// Connected ports (state Open) still active at endpoint `ep`.
    pub fn open_ports(&self, ep: usize) -> Vec<u32> {
        let mut v: Vec<u32> =
            self.active[ep].iter().filter(|(_, i)| self.recs[**i].state == RecState::Open).map(|(n, _)| *n).collect();
        v.sort_unstable();
        v
    }

    /// Ports still active at endpoint `ep` (numbers).
    pub fn active_ports(&self, ep: usize) -> Vec<u32> {
        let mut v: Vec<u32> = self.active[ep].keys().copied().collect();
        v.sort_unstable();
        v
    }
}

fn new_rec(requester: usize, num: u32, via_client: bool, id: Option<u32>, wait: bool) -> PortRec {
    let mut n = [None, None];
    n[requester] = Some(num);
    PortRec {
        num: n,
        requester: requester as u8,
        via_client,
        state: RecState::Requested,
        id,
        wait,
        sent_sf: [false; 2],
        sent_rf: [false; 2],
        sent_rc: [false; 2],
        got_sf: [false; 2],
        got_rf: [false; 2],
        flow: Default::default(),
        released: [false; 2],
        answered_delivered: false,
    }
}
