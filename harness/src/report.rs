//! Evidence files, known findings, replay artefacts, exit codes.

use serde_json::{Value, json};
use std::{collections::BTreeMap, path::PathBuf, time::Instant};

use crate::explore::{Stats, ViolationRec};

/// Root of the verification tree (evidence, known findings). `bin/check` sets VERIF_ROOT to its own location.
pub fn verif_dir() -> String {
    std::env::var("VERIF_ROOT").unwrap_or_else(|_| "/verif".to_string())
}

#[derive(Debug, Clone, Copy, PartialEq, Eq)]
pub enum Tier {
    Quick,
    Thorough,
}

impl Tier {
    pub fn name(&self) -> &'static str {
        match self {
            Tier::Quick => "quick",
            Tier::Thorough => "thorough",
        }
    }
}

#[derive(Debug, Clone, serde::Deserialize)]
pub struct KnownEntry {
    pub property: String,
    pub signature: String,
    pub what: String,
}

#[derive(Debug, Clone, serde::Deserialize, Default)]
pub struct KnownFile {
    #[serde(default)]
    pub known: Vec<KnownEntry>,
    #[serde(default)]
    pub fixed: Vec<Value>,
}

pub fn load_known() -> KnownFile {
    let path = format!("{}/known_findings.json", verif_dir());
    match std::fs::read_to_string(&path) {
        Ok(s) => serde_json::from_str(&s).unwrap_or_else(|e| {
            eprintln!("cannot parse {path}: {e}");
            std::process::exit(2)
        }),
        Err(_) => KnownFile::default(),
    }
}

pub fn known_sigs(prop: &str) -> Vec<String> {
    load_known().known.into_iter().filter(|k| k.property == prop).map(|k| k.signature).collect()
}

/// Collected result of a property check.
pub struct Report {
    pub prop: String,
    pub tier: Tier,
    pub seed: u64,
    pub level: &'static str,
    pub started: Instant,
    pub stats: Stats,
    pub rule: String,
    pub assumptions: Vec<String>,
    pub extra: BTreeMap<String, Value>,
    pub exhaustive: bool,
    pub parts: Vec<Value>,
}

impl Report {
    pub fn new(prop: &str, tier: Tier, seed: u64) -> Self {
        Self {
            prop: prop.to_string(),
            tier,
            seed,
            level: "model_checking",
            started: Instant::now(),
            stats: Stats::default(),
            rule: String::new(),
            assumptions: Vec::new(),
            extra: BTreeMap::new(),
            exhaustive: false,
            parts: Vec::new(),
        }
    }

    /// Adds the statistics of one exploration part.
    pub fn add(&mut self, name: &str, s: Stats) {
        self.parts.push(json!({
            "part": name,
            "scenarios": s.scenarios,
            "executions": s.executions,
            "steps": s.steps,
            "distinct_outcomes": s.outcomes.len(),
            "distinct_nontrivial_outcomes": s.nontrivial_outcomes.len(),
            "deviation_bound_completed": s.level_completed,
            "executions_per_deviation_count": s.execs_per_level,
            "caps_hit": s.caps_hit,
            "endings": s.endings,
        }));
        self.stats.merge(s);
    }

    /// Writes evidence, prints verdict lines, returns the exit code.
    pub fn finish(self) -> i32 {
        let known = load_known();
        let known: Vec<&KnownEntry> = known.known.iter().filter(|k| k.property == self.prop).collect();
        let s = &self.stats;

        let mut exit = 0;
        for e in &s.machinery_errors {
            println!("MACHINERY-ERROR property={} {}", self.prop, e);
            exit = 2;
        }

        // Partition violations.
        let mut unknown: Vec<&ViolationRec> = Vec::new();
        let mut seen_known: BTreeMap<String, &ViolationRec> = BTreeMap::new();
        for v in &s.violations {
            if known.iter().any(|k| k.signature == v.finding.sig) {
                seen_known.entry(v.finding.sig.clone()).or_insert(v);
            } else {
                unknown.push(v);
            }
        }
        for (sig, v) in &seen_known {
            let what = known.iter().find(|k| &k.signature == sig).map(|k| k.what.as_str()).unwrap_or("");
            println!("KNOWN-FINDING: property={} signature={} {} [scenario {}]", self.prop, sig, what, v.scenario);
        }
        let _ = std::fs::create_dir_all(format!("{}/evidence/replays", verif_dir()));
        let mut printed = std::collections::BTreeSet::new();
        for v in &unknown {
            if !printed.insert(v.finding.sig.clone()) {
                continue;
            }
            let h = {
                use std::hash::{Hash, Hasher};
                let mut h = std::collections::hash_map::DefaultHasher::new();
                v.finding.sig.hash(&mut h);
                v.scenario.hash(&mut h);
                format!("{:?}", v.deviations).hash(&mut h);
                h.finish()
            };
            let path = format!("{}/evidence/replays/{}-{:016x}.json", verif_dir(), self.prop, h);
            let body = json!({
                "property": v.finding.prop,
                "checked_by": self.prop,
                "signature": v.finding.sig,
                "detail": v.finding.detail,
                "scenario": v.scenario,
                "seed": v.seed,
                "deviations": v.deviations,
                "ending": v.ending,
                "schedule": v.schedule,
            });
            let _ = std::fs::write(&path, serde_json::to_string_pretty(&body).unwrap());
            println!("VIOLATION property={} replay={}", self.prop, path);
            println!("  signature: {}", v.finding.sig);
            println!("  detail: {}", v.finding.detail);
            println!("  scenario: {} deviations: {:?}", v.scenario, v.deviations.iter().map(|d| (d.pos, d.task, d.budget)).collect::<Vec<_>>());
            if exit == 0 {
                exit = 1;
            }
        }

        let mut coverage = serde_json::Map::new();
        coverage.insert("states".into(), json!(s.decision_nodes.max(1)));
        coverage.insert("transitions".into(), json!(s.steps.max(1)));
        coverage.insert("traces_validated_against_impl".into(), json!(s.executions));
        coverage.insert("evaluations".into(), json!(s.executions));
        coverage.insert("distinct_nontrivial".into(), json!(s.nontrivial_outcomes.len()));
        coverage.insert("rule".into(), json!(self.rule));
        let samples: Vec<Value> = if s.samples.is_empty() {
            vec![json!("(no sample recorded)")]
        } else {
            s.samples.iter().map(|x| json!(x)).collect()
        };
        coverage.insert("samples".into(), json!(samples));
        coverage.insert("exhaustive".into(), json!(self.exhaustive && s.caps_hit.is_empty()));
        coverage.insert("deviation_bound_completed".into(), json!(s.level_completed));
        coverage.insert("executions_per_deviation_count".into(), json!(s.execs_per_level));
        coverage.insert("caps_hit".into(), json!(s.caps_hit));
        coverage.insert("determinism_replays".into(), json!(s.determinism_replays));
        coverage.insert("max_choice_points".into(), json!(s.max_choice_points));
        coverage.insert("distinct_outcomes".into(), json!(s.outcomes.len()));
        coverage.insert("endings".into(), json!(s.endings));
        coverage.insert("scenarios".into(), json!(s.scenarios));
        coverage.insert("wire_events_monitored".into(), json!(s.wire_events));
        coverage.insert("parts".into(), json!(self.parts));
        coverage.insert(
            "known_findings_seen".into(),
            json!(seen_known.keys().cloned().collect::<Vec<_>>()),
        );
        coverage.insert(
            "explanation".into(),
            json!("states = decision nodes of the schedule/choice tree visited (or operation histories / canonical states for sequence enumeration); transitions = scheduling steps or operations executed on the real implementation; every explored trace is an execution of the real remoc code"),
        );
        for (k, v) in &self.extra {
            coverage.insert(k.clone(), v.clone());
        }
        let ev = json!({
            "property_id": self.prop,
            "tier": self.tier.name(),
            "seed": self.seed,
            "level": self.level,
            "coverage": Value::Object(coverage),
            "assumptions": self.assumptions,
            "wall_s": self.started.elapsed().as_secs_f64(),
            "violations": unknown.len(),
        });
        let path = PathBuf::from(format!("{}/evidence/{}.json", verif_dir(), self.prop));
        if let Err(e) = std::fs::write(&path, serde_json::to_string_pretty(&ev).unwrap()) {
            println!("MACHINERY-ERROR cannot write evidence: {e}");
            exit = 2;
        }
        println!(
            "property={} tier={} executions={} steps={} outcomes={} nontrivial_outcomes={} bound_completed={:?} caps={:?} wall={:.1}s exit={}",
            self.prop,
            self.tier.name(),
            s.executions,
            s.steps,
            s.outcomes.len(),
            s.nontrivial_outcomes.len(),
            s.level_completed,
            s.caps_hit.len(),
            self.started.elapsed().as_secs_f64(),
            exit
        );
        exit
    }
}
