#!/usr/bin/env python3
"""Generates /verif/MANIFEST.json from the table below (kept in one place so it stays valid)."""
import json, subprocess

CHECKS = {
  # id: (category, technique, level text, level note, design ref)
  "C01": ("model_checking",
          "stateless deviation-bounded schedule exploration of the real chmux code + exhaustive script/size/cfg/cancel-point grid, reference-model (list of completed sends) oracle",
          "Every execution of the real sender/receiver/dispatcher code for all scripts of the grid (sizes around chunk/buffer/max_data_size, send/try_send/chunked/abandoned/cancelled at every poll index, differing cfg pairs) on the default schedule, and for the core scripts under every schedule with <= 2 (quick) / 3 (thorough) deviations (task switches and budget preemptions); the receiver's log must equal the list of completed sends.",
          "Trusted: rustc, Tokio current-thread scheduler/paused clock/coop budget, the harness scheduler adapter (hook H1) and transport. select! fairness RNG fixed per seed, preemption points per poll capped (see evidence), memory-order effects not modelled.",
          "DESIGN.md 4/C01"),
  "C02": ("model_checking",
          "independent wire-ledger invariant evaluated at every prefix of every explored wire trace (deviation-bounded schedule exploration + script grids of real chmux executions)",
          "The ledger (written from spec/chmux_v3.md, no code shared with remoc) checks at every wire event: cost put on wire - credit delivered <= advertised receive buffer; payload <= advertised chunk size; 4*ports <= chunk size; credit granted <= cost delivered. Hosts: dedicated traffic mixes with held-back credit frames (d<=1/2) and all C01/C03 grids and cores (d<=2/3).",
          "Trusted: harness transport/ledger/spec transcription; credit counted as granted at delivery (tightest sound reading). Same scheduler assumptions as C01.",
          "DESIGN.md 4/C02"),
  "C03": ("model_checking",
          "deviation-bounded schedule exploration + exhaustive cancel-point/queue-state/residue grids on real chmux code; quiescence + ledger-derived credit-conservation probe oracle",
          "(a) scripts with sends/try_sends/connects cancelled at every poll index while the path to the wire is blocked, receiver-side cancelled recv with a full return queue: at quiescence nothing may be pending and send(P) for the ledger-derived pool P must complete with the reverse direction held; (b) connect(k ports) for receive buffers 4..=17 x residues 0..7 x chunk sizes: no step-horizon ending, no empty PortData, <= k frames; also for scripts of empty messages and of chunked messages ending in finish(), and with everything consumed fewer credits than the receiver's return threshold may be outstanding; (c) a stalled port never blocks other/new ports, whichever way its sender got stuck (whole messages, a chunked body using exactly the granted credit then finish(), an over-long chunk, port requests over the stalled port).",
          "Liveness judged at quiescence of a healthy transport under the paused clock; step horizon 3000/20000 classifies livelock. Same scheduler assumptions as C01.",
          "DESIGN.md 4/C03"),
  "C07": ("model_checking",
          "exhaustive drop-order permutation enumeration x deviation-bounded schedule exploration of real endpoints; wire-ledger port life-cycle invariants; state-equality argument for repetition",
          "All 8! orders of dropping the two port halves, client and listener on both endpoints (quick: every 7th), strided samples of the 10! orders with a pending connect and a held (or half-accepted) request, two-port orders, at d=0; selected orders and open/transfer/close cycles at d<=2. Oracle: both dispatchers return Ok with the link still open, no port number re-used while active, max_ports respected, exactly max_ports numbers free afterwards, no remoc task left, state after k cycles equals the initial state.",
          "Unbounded repetition is argued by state equality after 0..2 cycles, not by infinite runs. Hook H2 makes port numbers re-used immediately.",
          "DESIGN.md 4/C07"),
  "C06": ("fault_enumeration",
          "exhaustive fault-plan enumeration (frame index x direction x fault kind x timeout pair) over real endpoints on the harness transport under a paused virtual clock, with deviation-bounded schedule exploration per plan",
          "Workload: handshake, port open, 3-chunk message, echo, idle gap with pings, small message, a credit-blocked sender on a second port, pending recv/accept/closed. Faults: sink error, stream error, end of stream, stall of both / one direction at every frame index, for 5 connection_timeout pairs; healthy idle periods of 20x the timeout. Oracle in virtual time: each dispatcher fails by fault time + own timeout (or peer termination), every started and later operation completes with an error, received is a prefix of sent, healthy idle connections survive.",
          "Virtual time only; an endpoint without timeout has no obligation under silent stalls; quick tier d=1 is time-capped (reported). Typed layers (mpsc both ways, broadcast with a keeping-up or lagging remote subscriber, watch, oneshot, remote trait call in flight or later, remote function) under cut / stall / one-way stall: every pending and later operation ends with an error within 30 virtual seconds.",
          "DESIGN.md 4/C06"),
  "C08": ("model_checking",
          "explicit-state breadth-first search over peer frame histories (alphabet of 73 raw frames incl. malformed ones) from 8 API-state prefixes, each state rebuilt by re-execution on one real endpoint; the peer advertises a receive buffer of its own far larger than the endpoint's",
          "All frame sequences of depth <= 2 (quick) / <= 3 (thorough) after each of 8 API states (fresh, connecting, connected reading/idle, half-closed either way, freed, request queued). Oracle: no panic in any task; afterwards the endpoint either passes a conforming liveness exchange in both directions or run() returned Protocol/Reset/StreamClosed (or an orderly Goodbye exchange) and every local handle reports an error; accepted-but-unread payload <= the endpoint's own receive buffer + 64 (checked with floods of 3..24 full data frames on an idle port, the peer having advertised 4096 for itself).",
          "Local actors run to quiescence on the default schedule after each frame. Alphabet values are boundary values, not all 2^32.",
          "DESIGN.md 4/C08"),
  "C09": ("model_checking",
          "complete enumeration of a finite grid of scripted conversations between one real endpoint and a peer using only the independent reference codec (spec/chmux_v3.md); byte-exact comparison",
          "Emit: every message kind in every flag combination with boundary port numbers/ids/credits/cfg values must be byte-identical to the reference encoding; accept: every reference-encoded message incl. id-less v2 variants must have the API effect the spec assigns; negotiation: v2 peer gets no ids; framing: Connect::io over byte pipes with buffer sizes 1..4096 (short reads/writes), chunk sizes 4..=24,32,64,128, full port batches, length prefix, over-long frame refused.",
          "The spec was transcribed once from the pinned tree and frozen; equality is checked against it, not against remoc's decoder.",
          "DESIGN.md 4/C09"),
  "C10": ("model_checking",
          "deviation-bounded schedule exploration + grid of request kinds x listener action scripts x max_ports x connect_queue on real endpoints; id-based ground truth and label echo pairing oracle; wire-ledger connect_queue invariant",
          "Request kinds: wait / no-wait / plain / over-port(wait,no-wait) / cancelled; listener actions: accept, inspect+accept, reject(no_ports t/f), drop, cancelled Listener::accept, cancelled Request::accept; pairs and triples over max_ports and connect_queue incl. exhaustion; after teardown every request must be resolved with the classification matching what the listener did; accepted pairs echo their ids both ways; unanswered OpenPort <= advertised connect_queue at every wire prefix; request visible to the listener before data sent after Connect::sent().",
          "The configured default exhaustion policy Cfg::ports_exhausted (fail / wait / wait 5 s) is enumerated with all local ports in use and the port freed never / after 2 s / after 20 s; it is never read by the implementation (known finding F7, two signatures). Port requests over a port with and without the wait flag while the remote endpoint has one free port too few, with the port list split over several frames or not.",
          "DESIGN.md 4/C10"),
  "C11": ("model_checking",
          "deviation-bounded schedule exploration (d<=2/3) of close / receiver drop / sender drop / cancelled close at every position of a 4-message stream with a chunked message on real chmux ports; bounded exhaustive enumeration of the same events (plus connection cut) on every typed channel kind and placement, with schedule exploration of the racing cases",
          "Ports: after close every send that returned Ok is received, later sends and try_sends fail Closed{gracefully:true}, closed() resolves; after receiver drop later sends fail Closed{gracefully:false} and received is a prefix; after sender drop the receiver gets everything then end-of-stream; nothing hangs. Typed channels (base; mpsc with the sender remote, the receiver remote, a local plus a remote sender, two remote senders; lr with either half remote; oneshot with either half remote; bin with either half remote): event = receiver close / receiver drop / drop of all senders / connection cut after 0..4 values per sender (one value spans several chunks), both settled (everything before it delivered, later sends start after it is observable) and racing with the sends; oracle: per sender the received values are a prefix of the accepted ones, intact; a Sending handle that resolved Ok (or a send that returned Ok on channels without handles) is delivered after a close and after sender drop, undelivered accepted values form a suffix whose handles report dropped / a send error and never hang; after sender drop the receiver gets everything and then end-of-stream (oneshot: Closed when nothing was sent); the condition becomes observable at the sender (closed() resolves) and every classification the API offers (ClosedReason of sender and of the send error, Closed{gracefully}, error kind) is closed / dropped / failed as the event demands; after a cut the receiver never reports a clean end with values missing.",
          "Channels are used over one connection; forwarded (multi-hop) halves are C05/C20's subject. Known finding F14 (send error of a local mpsc sender after its receiver was dropped). select! fairness fixed per seed.",
          "DESIGN.md 4/C11"),
  "C04": ("model_checking",
          "bounded exhaustive item-sequence enumeration on real base / lr / mpsc / oneshot channels with a per-sender prefix oracle; deviation-bounded schedule exploration for scripts without helper threads",
          "All item sequences of depth 4/5 (buffered) and 3/4 (streamed) over {value, streamed value, serialization failure early/late, over sender limit, over receiver limit, undecodable, send cancelled at poll p} with at most 2 failing items, on base and lr channels, pairs of scripts on mpsc with 2 remote + 1 local sender, oneshot batches. Oracle: per sender the received values are a duplicate-free ordered prefix of the successfully sent receivable items, payload byte-exact, a failing item is never delivered, no gap, no loss unless the channel ended, receiver errors <= failing items. Also with every recv() future dropped at its p-th poll and retried (base, lr, mpsc; buffered p=1..3, streamed p=1..13).",
          "Items above max_data_size use spawn_blocking helper threads that cannot be scheduled by any installed tool: those scenarios are input-exhaustive only (free-running schedule), labelled in the evidence.",
          "DESIGN.md 4/C04"),
  "C05": ("model_checking",
          "bounded exhaustive enumeration of value shapes x channel-half kinds x hops x port limits on real endpoints with a unique-label wiring oracle; deviation-bounded schedule exploration of core shapes",
          "1..4 halves of 11 kinds (mpsc/oneshot/watch/lr/bin sender and receiver halves, broadcast receiver) placed in vec / option / map / tuple / enum / nested containers, forwarded over 1..3 connections, with queued items at hand-over, low credit, max_ports exhaustion on all or only the receiving endpoint. Every half is exercised with a label unique to its channel: it must arrive at its counterpart and nowhere else; when a half cannot be connected both ends must report an error within the horizon; a failing value must not wedge the carrying channel. Every half kind is also sent in front of bulk data that pushes the value over max_data_size (serialized twice: buffered attempt, then streamed).",
          "Apart from the bulk cases (free-running schedule, labelled) values stay below max_data_size (no helper threads). lr halves are documented as non-forwardable and are expected to fail cleanly over >= 2 hops.",
          "DESIGN.md 4/C05"),
  "C15": ("model_checking",
          "grid enumeration (update count x drop/keep x transfer moment x hops x reader style x pacing x stalled transport) + deviation-bounded schedule exploration of real watch channels",
          "Four receivers per case (local, late clone/subscription, two sent to the remote endpoint before/while updates are in flight, optionally forwarded over a second connection; or the sender half sent away). Oracle: every observed sequence is non-decreasing and contains only sent values; every receiver ends holding the last value sent, also when the sender is dropped right after sending it and when the transport to the receiver was blocked while newer values were written.",
          "Connection stays up. select! fairness fixed per seed.",
          "DESIGN.md 4/C15"),
  "C16": ("model_checking",
          "grid enumeration (burst x send/receive buffer x consumption pattern x local/remote x join point x pacing) + deviation-bounded schedule exploration of real broadcast channels; per-subscriber log oracle",
          "Per subscriber: values strictly increasing, none from before the subscription, exactly one lag marker at every gap (including a gap at the very end, before Closed, also when every sender was dropped before the stalled subscriber drained) and none without a gap, Closed at the end (never a hang, also with send_buffer 1); a subscriber that keeps up with a paced sender receives every value even next to a subscriber that never consumes; send is synchronous and never fails while subscribers exist. The same patterns with the values fed through Sender::feeder(), also with slow subscribers only: a subscriber that merely lags must not disconnect the feeder.",
          "'Keeps up' defined operationally (quiescence between sends).",
          "DESIGN.md 4/C16"),
  "C18": ("model_checking",
          "bounded exhaustive enumeration of byte strings x write partitions x modes x endings x cut frames on real rch::io channels + deviation-bounded schedule exploration of core transfers",
          "Lengths around chunk_size/receive_buffer, all compositions into <= 3/4 writes incl. empty writes and a flush, sized with declared L-1/L/L+1 and unsized, shutdown / flush+drop / drop, read buffer sizes 1/chunk/L+1, either half remote, the sender moving on to a third endpoint in the middle of the stream, connection cut after every frame. Oracle: bytes read are a prefix of bytes accepted; EOF is reported successfully only for complete streams; over-long writes refused; complete healthy streams fully delivered; no panic and no hang on either side.",
          "A cut makes both directions report end-of-stream / sink error.",
          "DESIGN.md 4/C18"),
  "C12": ("model_checking",
          "grid enumeration of server flavours x client mixes x calls + deviation-bounded schedule exploration; execution-log multiset matching (at most once, own caller) and brute-force linearizability search",
          "Server flavours: by value, ref-mut, shared-mut with/without spawn, shared with/without spawn; 2-3 clients (one local, remote clones) issuing get / slow_get / add (read-yield-write) / #[no_cancel] add_nc / take; connection cut after every frame; the caller of a #[no_cancel] mutating method dropped at every poll while the callee is suspended between its two side effects. Oracle: every Ok result is the result of exactly one execution with those arguments, no execution credited twice, executions <= calls, and a sequential order of the calls respecting real-time order reproduces all results (failed mutating calls may or may not have taken effect). Remote functions: RFn with a local and remote clones calling concurrently, RFnMut and RFnOnce held on a remote endpoint, calls abandoned at every poll index and followed by further calls, executions optionally held at a gate between reading and writing their state, connection cut after every frame, schedules of core cases; oracle: own result of exactly one execution, at most once, executions of an FnMut / FnOnce never overlap and lose no update, sequential-order search.",
          "Real-time order from the scheduler step counter. History size <= 7 completed calls for the brute-force search.",
          "DESIGN.md 4/C12"),
  "C19": ("model_checking",
          "enumeration of abandonment stages x method kinds x server flavours and failing items x positions, each under deviation-bounded schedule exploration; execution-log oracle",
          "A's call future dropped before queueing / queued behind another call / at the first or second suspension point / with the reply in flight, or A's connection cut, or the caller dropped / cut while a reply about twice its flow-control window is being transferred, for a cancellable and a #[no_cancel] method on by-value, ref-mut and shared-mut (spawn on/off) servers; unknown method (newer client trait), over-long request, over-long reply at position 0..2 among three calls; remote clients on two connections that fail one after the other while a local client keeps calling. Oracle: cancellable executions stop at the next suspension point once the server has settled, #[no_cancel] ones finish, another client's &mut and &self calls complete afterwards (lock released), serve() is still running, an item failure fails only that call.",
          "Cancellation is required only after two quiescence periods with the caller gone. Known finding F6 (over-long reply ends serve(), pinned by the suite) is listed in known_findings.json. Mismatched argument types are decoded leniently by the default codec and are not a failing item.",
          "DESIGN.md 4/C19"),
  "C17": ("model_checking",
          "deviation-bounded schedule exploration with preemption injection + timing sweeps of real remote rw_lock handles; timed-history oracle",
          "Two clones on the owner's endpoint (shared cache) and two independently sent handles on a remote endpoint run scripts of <= 3 operations over {read and hold, write+commit, write+drop}, cold and warm caches; a write shifted by k = 0..23/39 steps against a read on another handle, each with a further deviation; loss of the connection of an endpoint holding a read or write guard; a remote handle committing a value the owner cannot decode (the commit must fail and change nothing); reads on an endpoint that lost its connection (cold / warm cache, guard held across the cut) after the owner's endpoint committed a new value must fail or show the new value. Oracle: no write guard interval overlaps any other guard, write guards obtain the latest commit, reads return a value current at some instant of the call, commits are never lost, dropped write guards change nothing, and with all guards released every request completes (no deadlock).",
          "Guard intervals measured with the scheduler step counter; a write guard ends when commit() consumes it. Holder-loss cases judge the surviving endpoint only. Quick tier is time-capped (reported).",
          "DESIGN.md 4/C17"),
  "C13": ("model_checking",
          "bounded exhaustive enumeration of operation sequences over each collection's full mutating API x initial contents x subscription points x modes on the real robs code, four kinds of consumer compared with the observable itself; deviation-bounded schedule exploration of representative sequences",
          "Vector, deque, hash map, hash set, list: every sequence of depth <= 2 (quick) / 3 (thorough) (sets 3/4, lists 4) over alphabets of 13-28 operations (incl. get_mut / iter_mut with and without writing, entry API, retain incl. a value-mutating predicate, resize both ways, swap_remove_back/front, extend, out-of-range and no-op cases, done), from the empty collection and from every content state over {0,1,2} of length <= 2/3 built through From; a snapshot and an incremental subscription is taken before every operation and consumed by mirror(), by two mirrors subscribed to that mirror, by hand (events replayed on a std collection) and by a mirror on a remote endpoint; at quiescence contents, done flag, completeness and detach() must equal the observable's; done() followed by an immediate drop must still deliver everything. Delivery schedules of 7 representative sequences with <= 1/2 deviations. Hand consumers also exist with every recv() future dropped at its 1st / 2nd poll and retried.",
          "Buffers large enough not to lag (C14's subject). Known finding F4 (retain with a value-mutating predicate on hash maps).",
          "DESIGN.md 4/C13"),
  "C14": ("model_checking",
          "bounded exhaustive enumeration of subscriber-speed patterns x event buffers x size limits x endings x cut points x joining points on the real robs code with a history oracle on every observation; forged event streams from a peer; deviation-bounded schedule exploration of core cases",
          "For vector, deque, hash map, hash set and list: scripts of 3 (quick) / 2,3,5 (thorough) single-event operations, all 2^n patterns of where the consumers get to run, event buffer 1/2/(3)/1024, mirror size limit (1)/2/(3)/100, ending done / done+drop / drop / kept, consumers local or on a remote endpoint, connection cut after k operations, a second group of subscribers joining mid-way; per group a snapshot and an incremental subscription each consumed by a watched mirror (every change observed via borrow_and_update/changed, then borrow twice and detach) and by hand with the replica state recorded after every event. Oracle: every presented state is a state of the collection's history after the subscription point, in order and without skipping; a consumer that does not end on the final state (with Done) ends with an error of the class its situation allows and a mirror keeps reporting it; detach returns a history state; list subscribers receive everything. Forged streams: out-of-range Set/Insert/Remove/SwapRemove(Back/Front) and Resize/Insert/Push past max_size must be reported (InvalidIndex / MaxSizeExceeded), not applied, and nothing after them applied. Joining a mirror while a reader holds a borrow and an event is queued. A hand consumer that abandons every recv() at its first poll and retries. Schedules of core cases with <= 1/2 deviations.",
          "Scripts use single-event operations so intermediate replica states are history states. Virtual time; connection failure = cut of both directions.",
          "DESIGN.md 4/C14"),
  "C20": ("model_checking",
          "bounded exhaustive enumeration of handle travel paths x accessors x drop orders on a 3-endpoint triangle and of lazy value/blob sizes x hops x cut frames on a 4-endpoint chain, against a small reference model; deviation-bounded schedule exploration of core cases",
          "Handles: every path over <= 3 connections of the triangle A-B, B-C, C-A (incl. returning over the other connection and a second round trip), as_ref / as_mut / cast+as_ref / into_inner at every stop, clones kept, sent home individually, dropped before/after the original, provider kept or dropped. Oracle: the value (with identity 4242) is obtainable only at its origin, at its original type, while not taken; every other access is an error, never another value; a handle or clone coming home over the connection it left on works; the drop counter of the stored value becomes 1 exactly once, after the last handle/provider is gone and not earlier. Lazy/LazyBlob: sizes 0/1/chunk/buffer+1/3*buffer/1000 over 1..3 connections, fetched once or twice concurrently, chunked relaying, provider dropped, a clone of the received blob used after the other copy was consumed, connection cut after every frame on every link: a fetch returns exactly what was provided or an error, never a shorter value.",
          "Lazy<Vec<u8>> above max_data_size involves helper threads (input-exhaustive only, labelled).",
          "DESIGN.md 4/C20"),
}

NOT_YET = "check not built yet in this session (design in DESIGN.md section 4); not claimed"

def main():
    props = [json.loads(l) for l in open('/verif/properties.jsonl')]
    commits = subprocess.run(['git','-C','/repo','log','--format=%H %s'],capture_output=True,text=True).stdout.splitlines()
    hook_commits = [c.split()[0] for c in commits if 'verif hook' in c]
    checks = []
    na = []
    for p in props:
        i = p['id']
        if i in CHECKS:
            cat, tech, text, note, ref = CHECKS[i]
            checks.append({
                "property_id": i,
                "quick_cmd": f"bin/check {i} quick",
                "thorough_cmd": f"bin/check {i} thorough",
                "evidence_file": f"/verif/evidence/{i}.json",
                "replay_cmd_template": "harness/target/release/rverif replay {path}",
                "engine": "rverif",
                "level_claimed": {"category": cat, "text": text, "design_ref": ref},
                "level_note": note,
                "technique": tech,
            })
        else:
            na.append({"property_id": i, "reason": NOT_YET})
    m = {
        "version": 1,
        "setup_cmd": "bin/setup",
        "hooks": {
            "guard": "cargo feature `verif-hooks` of crate remoc (cfg(feature = \"verif-hooks\"))",
            "enable": "the harness crate depends on /repo/remoc by path with features = [\"verif-hooks\"]; RUSTFLAGS --cfg tokio_unstable (harness/.cargo/config.toml) only for runtime::Builder::rng_seed",
            "baseline_off_cmd": "cd /repo && cargo nextest run --workspace --no-fail-fast --tool-config-file pb:/w/lib/nextest.toml --profile pb --test-threads 8 --offline",
            "source_commits": hook_commits,
            "add_only": True,
        },
        "engines": [
            {"name": "rverif", "path": "/verif/harness", "serves_properties": sorted(CHECKS.keys()),
             "kind_free_text": "Rust harness: controlled scheduler (hook H1) over real remoc code on a single-threaded Tokio runtime with paused clock; stateless deviation-bounded exploration with prefix replay; harness-owned transport with fault plans; independent wire codec and ledger monitor; bounded exhaustive sequence/grid enumeration against reference models"}
        ],
        "checks": checks,
        "not_applicable": na,
        "notes": "exit 0 = held on everything explored; exit 1 + VIOLATION line = unlisted violation; KNOWN-FINDING lines + exit 0 for findings listed in known_findings.json; exit 2 = machinery failure (build error, replay divergence, nondeterminism) which is never a verdict.",
    }
    json.dump(m, open('/verif/MANIFEST.json','w'), indent=1)
    print("claimed:", len(checks), "not claimed:", len(na))

main()
